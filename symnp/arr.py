"""SymArray: NumPy-like array of SV elements (object ndarray underneath, so views,
broadcasting and indexing semantics are NumPy's own)."""
from __future__ import annotations

from fractions import Fraction as Fr

import numpy as _np
import z3

from . import core
from .core import SV, Unsupported, ctx


def _lift(x):
    return x if isinstance(x, SV) else SV.of(x)


_lift_u = _np.frompyfunc(_lift, 1, 1)


def to_obj(x):
    """object ndarray of SV from anything array-like (real ndarrays, lists, scalars)."""
    if isinstance(x, SymArray):
        return x.a
    if isinstance(x, SV):
        r = _np.empty((), dtype=object)
        r[()] = x
        return r
    if isinstance(x, (list, tuple)):
        if any(isinstance(e, (SymArray, SV)) for e in x):
            parts = [to_obj(e) for e in x]
            return _np.stack([_np.broadcast_to(p, _np.broadcast_shapes(*[q.shape for q in parts])) for p in parts]) if parts else _np.empty((0,), dtype=object)
        x = _np.asarray(x)
    a = _np.asarray(x)
    if a.dtype == object:
        r = _np.empty(a.shape, dtype=object)
        for i, e in _np.ndenumerate(a):
            r[i] = to_obj(e)[()] if not isinstance(e, SV) else e
        return r
    r = _np.empty(a.shape, dtype=object)
    if a.size:
        flat = r.reshape(-1) if r.flags.c_contiguous else None
        src = a.reshape(-1)
        for i in range(a.size):
            flat[i] = SV.of(src[i])
    return r


def wrap(o, kind=None):
    if isinstance(o, _np.ndarray):
        return SymArray(o, kind)
    return o


class SymArray:
    __array_ufunc__ = None
    __array_priority__ = 1000
    __slots__ = ("a", "kind", "tag")

    def __init__(self, a, kind=None, tag=None):
        if not (isinstance(a, _np.ndarray) and a.dtype == object):
            a = to_obj(a)
        self.a = a
        self.kind = kind  # 'float' | 'int' | 'bool' | None (loosely tracked)
        self.tag = tag  # name of the harness input whose storage this array shares

    # -- basic protocol ---------------------------------------------------------------
    @property
    def shape(self):
        return self.a.shape

    @property
    def size(self):
        return self.a.size

    @property
    def ndim(self):
        return self.a.ndim

    @property
    def T(self):
        return SymArray(self.a.T, self.kind, self.tag)

    @property
    def dtype(self):
        return {"int": _np.dtype(int), "bool": _np.dtype(bool)}.get(self.kind, _np.dtype(float))

    @property
    def flat(self):
        return iter(self.a.flat)

    def __len__(self):
        return len(self.a)

    def __iter__(self):
        if self.a.ndim == 0:
            raise TypeError("iteration over a 0-d array")
        for i in range(self.a.shape[0]):
            yield self[i]

    def __repr__(self):
        return f"SymArray{self.a.shape}({self.a.tolist()!r})"

    def copy(self):
        return SymArray(self.a.copy(), self.kind)

    def astype(self, dt, **_k):
        if dt in (float, _np.float64, "float64", "float"):
            return SymArray(_np.frompyfunc(core._n, 1, 1)(self.a) if self.a.size else self.a.copy(), "float")
        if dt in (bool, _np.bool_):
            return SymArray(_np.frompyfunc(core._b, 1, 1)(self.a) if self.a.size else self.a.copy(), "bool")
        if dt in (int, _np.int64):
            if self.all_concrete():
                return SymArray(to_obj(self.__array__().astype(int)), "int")
        raise Unsupported(f"astype({dt})")

    def reshape(self, *shape):
        if len(shape) == 1 and isinstance(shape[0], (tuple, list)):
            shape = tuple(shape[0])
        return SymArray(self.a.reshape(shape), self.kind, self.tag)

    def ravel(self):
        return SymArray(self.a.ravel(), self.kind, self.tag)

    def flatten(self):
        return SymArray(self.a.flatten(), self.kind)

    def tolist(self):
        return self.a.tolist()

    def item(self):
        return self.a.item()

    def all_concrete(self):
        return all(e.t is None for e in self.a.flat)

    def __array__(self, dtype=None, copy=None):
        """Concretise: all-concrete arrays become real ndarrays; symbolic Bool arrays are
        decided element by element (forking); anything else is unsupported."""
        out = _np.empty(self.a.shape, dtype=object)
        kinds = set()
        for i, e in _np.ndenumerate(self.a):
            if e.kind == "B":
                out[i] = bool(e)  # may fork
                kinds.add("b")
            elif e.t is None:
                if isinstance(e.c, float):
                    out[i] = e.c
                    kinds.add("f")
                elif e.isint and e.c.denominator == 1:
                    out[i] = int(e.c)
                    kinds.add("i")
                else:
                    out[i] = float(e.c)
                    kinds.add("f")
            else:
                raise Unsupported("symbolic array passed to real NumPy")
        if dtype is not None:
            return out.astype(dtype)
        if kinds <= {"b"}:
            return out.astype(bool)
        if kinds <= {"i"}:
            return out.astype(int)
        return out.astype(float)

    def __array_function__(self, func, types, args, kwargs):
        from . import shim

        f = getattr(shim.NP, func.__name__, None)
        if f is None:
            raise Unsupported(f"numpy.{func.__name__} on symbolic array")
        return f(*args, **kwargs)

    def __bool__(self):
        if self.a.size != 1:
            raise ValueError("truth value of an array with more than one element is ambiguous")
        return bool(self.a.reshape(-1)[0])

    def __index__(self):
        if self.a.size == 1:
            return self.a.reshape(-1)[0].__index__()
        raise TypeError("only size-1 arrays can be converted to index")

    def __float__(self):
        if self.a.size == 1:
            return float(self.a.reshape(-1)[0])
        raise TypeError("only size-1 arrays can be converted")

    # -- indexing -----------------------------------------------------------------------
    def _key(self, key):
        """Concretise an index expression (symbolic bool masks fork here)."""
        if isinstance(key, tuple):
            return tuple(self._key1(k) for k in key)
        return self._key1(key)

    @staticmethod
    def _key1(k):
        if isinstance(k, SymArray):
            return k.__array__()
        if isinstance(k, SV):
            if k.kind == "B":
                return _np.bool_(bool(k))
            return k.__index__()
        if isinstance(k, list) and any(isinstance(e, (SV, SymArray)) for e in k):
            return _np.asarray(SymArray(k))
        return k

    def _sym_lookup(self, key):
        """table[i] for a 1-D table of concrete numbers and a symbolic integer index array: one uninterpreted
        application per element (same table contents and same index term -> same value)."""
        import hashlib

        from . import core

        flat = [SV.of(e) for e in self.a.reshape(-1)]
        if any(e.t is not None for e in flat):
            raise core.Unsupported("symbolic index into an array with symbolic entries")
        h = hashlib.sha1(repr([str(e.c) for e in flat]).encode()).hexdigest()[:10]
        out = _np.empty(key.a.shape, dtype=object)
        for idx in _np.ndindex(*key.a.shape):
            e = SV.of(key.a[idx])
            out[idx] = flat[int(e.c)] if e.t is None else SV(t=core.uf_apply("opq_select_" + h, [e.term()]))
        return SymArray(out, self.kind)

    def __getitem__(self, key):
        if isinstance(key, SymArray) and self.a.ndim == 1 and key.a.size and key.kind != "bool" and any(
                isinstance(e, SV) and e.t is not None and e.kind != "B" for e in key.a.reshape(-1)):
            return self._sym_lookup(key)
        k = self._key(key)
        r = self.a[k]
        if isinstance(r, _np.ndarray):
            shares = _np.shares_memory(r, self.a) if r.size else False
            return SymArray(r, self.kind, self.tag if shares else None)
        return r

    def __setitem__(self, key, value):
        # masked store of a scalar under a symbolic mask of the array's own shape: merge with
        # if-then-else instead of forking
        if isinstance(key, SymArray) and key.size and key.shape == self.a.shape and all(e.kind == "B" for e in key.a.flat) and not isinstance(value, (SymArray, _np.ndarray, list, tuple)) and self.kind != "int" \
                and not key.all_concrete():
            v = SV.of(value)
            if not (v.t is None and isinstance(v.c, float)):
                if self.tag is not None:
                    ctx().events.append(("mutate-input", self.tag, core._where()))
                C = ctx()
                for i in _np.ndindex(*self.a.shape):
                    m = key.a[i]
                    if m.t is None:  # concrete mask element: plain store / no store (same encoding as an all-concrete mask)
                        if m.c:
                            self.a[i] = v
                        continue
                    if m.t is not None and C.prune and C.shadow is None and C.simplify_stores:
                        # simplify against the path condition: a mask element already implied
                        # true / false on this path needs no if-then-else
                        from .solve import quick_feasible

                        if quick_feasible(C, m.t, C.prune_timeout_ms) == "unsat":
                            continue
                        if quick_feasible(C, z3.Not(m.t), C.prune_timeout_ms) == "unsat":
                            self.a[i] = v
                            continue
                    self.a[i] = core.sv_if(m, v, self.a[i])
                return
        k = self._key(key)
        if self.tag is not None:
            ctx().events.append(("mutate-input", self.tag, core._where()))
        if isinstance(value, SymArray):
            v = value.a
        elif isinstance(value, SV):
            v = value
        elif isinstance(value, _np.ndarray) or isinstance(value, (list, tuple)):
            v = to_obj(value)
        else:
            v = SV.of(value)
        if isinstance(v, SV):
            tmp = _np.empty((), dtype=object)
            tmp[()] = v
            v = tmp
        self.a[k] = v

    # -- arithmetic -----------------------------------------------------------------------
    def _bin(self, o, f, kind=None):
        if isinstance(o, SymArray):
            ob = o.a
        elif isinstance(o, SV):
            ob = to_obj(o)
        elif isinstance(o, (_np.ndarray, list, tuple)):
            ob = to_obj(o)
        else:
            try:
                ob = to_obj(SV.of(o))
            except Unsupported:
                return NotImplemented
        r = f(self.a, ob)
        if not isinstance(r, _np.ndarray):
            tmp = _np.empty((), dtype=object)
            tmp[()] = r
            r = tmp
        return SymArray(r, kind)

    def _ibin(self, o, f):
        r = self._bin(o, f)
        if r is NotImplemented:
            return r
        if self.tag is not None:
            ctx().events.append(("mutate-input", self.tag, core._where()))
        self.a[...] = _np.broadcast_to(r.a, self.a.shape)
        return self


def _mk(name, pyf, kind=None, reflected=True, inplace=True):
    u = _np.frompyfunc(pyf, 2, 1)
    ur = _np.frompyfunc(lambda a, b: pyf(b, a), 2, 1)
    setattr(SymArray, f"__{name}__", lambda s, o: s._bin(o, u, kind))
    if reflected:
        setattr(SymArray, f"__r{name}__", lambda s, o: s._bin(o, ur, kind))
    if inplace:
        setattr(SymArray, f"__i{name}__", lambda s, o: s._ibin(o, u))


_mk("add", lambda a, b: a + b)
_mk("sub", lambda a, b: a - b)
_mk("mul", lambda a, b: a * b)
_mk("truediv", lambda a, b: a / b)
_mk("pow", lambda a, b: a**b)
_mk("mod", lambda a, b: a % b)
_mk("and", lambda a, b: a & b, "bool")
_mk("or", lambda a, b: a | b, "bool")
_mk("xor", lambda a, b: a ^ b, "bool")
_mk("lt", lambda a, b: a < b, "bool", reflected=False, inplace=False)
_mk("le", lambda a, b: a <= b, "bool", reflected=False, inplace=False)
_mk("gt", lambda a, b: a > b, "bool", reflected=False, inplace=False)
_mk("ge", lambda a, b: a >= b, "bool", reflected=False, inplace=False)
_mk("eq", lambda a, b: a == b, "bool", reflected=False, inplace=False)
_mk("ne", lambda a, b: a != b, "bool", reflected=False, inplace=False)
SymArray.__hash__ = lambda s: id(s)


def _unary(pyf, kind=None):
    u = _np.frompyfunc(pyf, 1, 1)

    def f(x):
        if isinstance(x, SymArray):
            if x.a.size == 0:
                return SymArray(x.a.copy(), kind)
            r = u(x.a)
            if not isinstance(r, _np.ndarray):
                tmp = _np.empty((), dtype=object)
                tmp[()] = r
                r = tmp
            return SymArray(r, kind)
        if isinstance(x, SV):
            return pyf(x)
        if isinstance(x, (_np.ndarray, list, tuple)):
            return f(SymArray(x))
        return pyf(SV.of(x))

    return f


def _np_method(name):
    def m(self, *a, **k):
        from . import shim

        return getattr(shim.NP, name)(self, *a, **k)

    m.__name__ = name
    return m


for _m in ("all", "any", "sum", "min", "max", "mean", "cumsum", "var", "clip"):
    setattr(SymArray, _m, _np_method(_m))
SymArray.squeeze = lambda s, *a, **k: SymArray(s.a.squeeze(*a, **k), s.kind, s.tag)
SymArray.__neg__ = lambda s: _unary(lambda a: -a)(s)
SymArray.__invert__ = lambda s: _unary(lambda a: ~a, "bool")(s)
SymArray.__abs__ = lambda s: _unary(abs)(s)
SymArray.__pos__ = lambda s: s


def symarr(names, kind="R"):
    """1-D SymArray of fresh named symbolic values."""
    out = _np.empty((len(names),), dtype=object)
    for i, n in enumerate(names):
        out[i] = SV(t=z3.Real(n)) if kind == "R" else SV(t=z3.Bool(n), kind="B")
    return SymArray(out, "float" if kind == "R" else "bool")
