"""Solver layer: nlsat queries, Ackermann axioms, angle monotonicity axioms, DFS path
exploration, model extraction, second-solver cross-check."""
from __future__ import annotations

import itertools
import subprocess
import time
from fractions import Fraction as Fr

import z3

from . import core
from .core import PI, Ctx, PathAbort, SV


def mk_solver(timeout_ms):
    s = z3.Tactic("qfnra-nlsat").solver()
    s.set("timeout", int(timeout_ms))
    return s


def _has_arith_nonlinear_free(fs):
    return False


def uf_axioms(C: Ctx):
    """Pairwise congruence / monotonicity / inverse axioms for the Ackermannised
    applications recorded in the context (sound instances of real-function facts)."""
    ax = []
    U = C.uf

    def pairs(f):
        return itertools.combinations(U.get(f, []), 2)

    for fam in ("exp", "exp10", "log", "log10"):
        for (a1, r1, _), (a2, r2, _) in pairs(fam):
            x1, x2 = a1[0], a2[0]
            if fam in ("exp", "exp10"):
                ax.append((x1 < x2) == (r1 < r2))
                ax.append((x1 == x2) == (r1 == r2))
            else:
                # log is only meaningful on positive arguments
                g = z3.And(x1 > 0, x2 > 0)
                ax.append(z3.Implies(g, (x1 < x2) == (r1 < r2)))
                ax.append(z3.Implies(g, (x1 == x2) == (r1 == r2)))
    for fe, fl in (("exp", "log"), ("exp10", "log10")):
        for (ae, re_, _) in U.get(fe, []):
            for (al, rl, _) in U.get(fl, []):
                y, x = ae[0], al[0]
                ax.append(z3.Implies(x == re_, rl == y))
                ax.append(z3.Implies(z3.And(y == rl, x > 0), re_ == x))
                # exp is strictly increasing and exp(log x) = x:  y < log x  <=>  exp y < x
                ax.append(z3.Implies(x > 0, (y < rl) == (re_ < x)))
                ax.append(z3.Implies(z3.And(x > 0, x * re_ == 1), rl == -y))
                ax.append(z3.Implies(z3.And(x > 0, y == -rl), re_ * x == 1))  # exp(-log x) = 1/x
    # exp(a) * exp(b) relations: exp(a+b) -- instantiate for triples only when small
    for fam in ("exp", "exp10"):
        apps = U.get(fam, [])
        if len(apps) <= 6:
            for (a1, r1, _), (a2, r2, _), (a3, r3, _) in itertools.permutations(apps, 3):
                if a1[0].get_id() < a2[0].get_id():
                    ax.append(z3.Implies(a3[0] == a1[0] + a2[0], r3 == r1 * r2))
    for fam in ("log", "log10"):
        apps = U.get(fam, [])
        if len(apps) <= 6:
            for (a1, r1, _), (a2, r2, _), (a3, r3, _) in itertools.permutations(apps, 3):
                if a1[0].get_id() < a2[0].get_id():
                    ax.append(z3.Implies(z3.And(a1[0] > 0, a2[0] > 0, a3[0] == a1[0] * a2[0]), r3 == r1 + r2))
    # uninterpreted abstractions (opaque_math): congruence only
    for fam, apps in U.items():
        if fam.startswith("opq_") and len(apps) <= 60:
            for (a1, r1, _), (a2, r2, _) in itertools.combinations(apps, 2):
                ax.append(z3.Implies(z3.And(*[x == y for x, y in zip(a1, a2)]), r1 == r2))
    # pow(x, k)
    P = U.get("pow", [])
    for (a, r, _) in P:
        x, k = a
        ax.append(z3.Implies(z3.And(x > 0, k == 0), r == 1))
        ax.append(z3.Implies(k == 1, r == x))
        ax.append(z3.Implies(z3.And(x == 1), r == 1))
        ax.append(z3.Implies(z3.And(x > 1, k > 0), r > 1))
        ax.append(z3.Implies(z3.And(x > 0, x < 1, k > 0), z3.And(r > 0, r < 1)))
        ax.append(z3.Implies(z3.And(x > 1, k < 0), z3.And(r > 0, r < 1)))
        ax.append(z3.Implies(z3.And(x > 0, x < 1, k < 0), r > 1))
    for (a1, r1, _), (a2, r2, _) in itertools.permutations(P, 2):
        x1, k1 = a1
        x2, k2 = a2
        pos = z3.And(x1 > 0, x2 > 0)
        ax.append(z3.Implies(z3.And(pos, k1 == k2, k1 > 0), (x1 < x2) == (r1 < r2)))
        ax.append(z3.Implies(z3.And(pos, k1 == k2, k1 < 0), (x1 < x2) == (r1 > r2)))
        if a1[0].get_id() <= a2[0].get_id():
            ax.append(z3.Implies(z3.And(x1 == x2, k1 == k2), r1 == r2))
            ax.append(z3.Implies(z3.And(pos, k1 == k2, k1 != 0), (x1 == x2) == (r1 == r2)))
            ax.append(z3.Implies(z3.And(pos, x1 * x2 == 1, k1 == k2), r1 * r2 == 1))
            ax.append(z3.Implies(z3.And(pos, x1 == x2, k1 == -k2), r1 * r2 == 1))
        # inverse pairs
        ax.append(z3.Implies(z3.And(x1 > 0, x2 == r1, k1 * k2 == 1), r2 == x1))
        ax.append(z3.Implies(z3.And(x1 > 0, x2 * r1 == 1, k1 * k2 == 1), r2 * x1 == 1))
    return ax


def mono_axioms(C: Ctx):
    """Monotonicity of sin/cos on their principal branches, instantiated for pairs of
    primitive angles of the same inverse-function family (and for compared pairs)."""
    ax = []
    by = {}
    for p in C.prims:
        by.setdefault(p.kind, []).append(p)
    for p, q in itertools.combinations(by.get("arccos", []), 2):
        ax.append((p.t < q.t) == (p.c > q.c))
        ax.append((p.t == q.t) == (p.c == q.c))
    for p, q in itertools.combinations(by.get("arcsin", []), 2):
        ax.append((p.t < q.t) == (p.s < q.s))
        ax.append((p.t == q.t) == (p.s == q.s))
    # free / opaque / const angles compared with principal-branch angles: guarded by range
    others = by.get("free", []) + by.get("opaque", []) + by.get("const", [])
    for p in others:
        for q in by.get("arccos", []) + [o for o in others if o is not p]:
            g = z3.And(p.t >= 0, p.t <= PI, q.t >= 0, q.t <= PI)
            ax.append(z3.Implies(g, (p.t < q.t) == (p.c > q.c)))
            ax.append(z3.Implies(g, (p.t == q.t) == (p.c == q.c)))
        for q in by.get("arcsin", []) + [o for o in others if o is not p]:
            g = z3.And(p.t >= -PI / 2, p.t <= PI / 2, q.t >= -PI / 2, q.t <= PI / 2)
            ax.append(z3.Implies(g, (p.t < q.t) == (p.s < q.s)))
            ax.append(z3.Implies(g, (p.t == q.t) == (p.s == q.s)))
        # sign facts for a lone angle
        ax.append(z3.Implies(z3.And(p.t > 0, p.t < PI), p.s > 0))
        ax.append(z3.Implies(z3.And(p.t > -PI, p.t < 0), p.s < 0))
        ax.append(z3.Implies(z3.And(p.t > -PI / 2, p.t < PI / 2), p.c > 0))
        ax.append(z3.Implies(z3.And(p.t > PI / 2, p.t < 3 * PI / 2), p.c < 0))
        ax.append(z3.Implies(p.t == 0, z3.And(p.s == 0, p.c == 1)))
        ax.append(z3.Implies(p.t == PI / 2, z3.And(p.s == 1, p.c == 0)))
        ax.append(z3.Implies(p.t == PI, z3.And(p.s == 0, p.c == -1)))
        ax.append(z3.Implies(p.t == -PI / 2, z3.And(p.s == -1, p.c == 0)))
    return ax


def base_constraints(C: Ctx, with_uf=True, with_mono=True):
    cons = list(C.facts) + list(C.pre) + list(C.pc)
    if with_uf and C.uf:
        cons += uf_axioms(C)
    if with_mono and C.prims:
        cons += mono_axioms(C)
    return cons


def quick_feasible(C: Ctx, lit, timeout_ms):
    s = mk_solver(timeout_ms)
    s.add(*base_constraints(C))
    s.add(lit)
    t = time.time()
    r = s.check()
    C.queries += 1
    C.solver_time += time.time() - t
    return str(r)


class Verdict:
    __slots__ = ("name", "result", "time", "model", "reason", "kind")

    def __init__(self, name, result, t, model=None, reason="", kind="claim"):
        self.name, self.result, self.time, self.model, self.reason, self.kind = name, result, t, model, reason, kind

    def as_dict(self):
        d = {"obligation": self.name, "verdict": self.result, "time_s": round(self.time, 3), "kind": self.kind}
        if self.model is not None:
            d["model"] = self.model
        if self.reason:
            d["reason"] = self.reason
        return d


def model_value(m, t):
    v = m.eval(t, model_completion=True)
    if z3.is_rational_value(v):
        return float(Fr(v.numerator_as_long(), v.denominator_as_long()))
    if z3.is_algebraic_value(v):
        a = v.approx(30)
        return float(Fr(a.numerator_as_long(), a.denominator_as_long()))
    if z3.is_true(v):
        return True
    if z3.is_false(v):
        return False
    try:
        return float(v.as_decimal(30).rstrip("?"))
    except Exception:
        return None


_VARS = {}


def vars_of(e):
    k = e.get_id()
    hit = _VARS.get(k)
    if hit is not None and hit[0].eq(e):
        return hit[1]
    acc = set()
    todo, seen = [e], set()
    while todo:
        x = todo.pop()
        i = x.get_id()
        if i in seen:
            continue
        seen.add(i)
        if z3.is_const(x) and x.decl().kind() == z3.Z3_OP_UNINTERPRETED:
            acc.add(x.decl().name())
        else:
            todo.extend(x.children())
    _VARS[k] = (e, acc)
    return acc


def relevance_levels(cons, goal_terms, max_levels=4):
    """Cone-of-influence layers: constraints sharing variables with the goal, then with those, ..."""
    need = set()
    for g in goal_terms:
        need |= vars_of(g)
    fv = [(f, vars_of(f)) for f in cons]
    used = [False] * len(fv)
    levels = []
    for _ in range(max_levels):
        new = [i for i, (f, v) in enumerate(fv) if not used[i] and (v & need or not v)]
        if not new:
            break
        for i in new:
            used[i] = True
            need |= fv[i][1]
        levels.append([f for (f, _v), u in zip(fv, used) if u])
        if all(used):
            break
    return levels


def narrow_closure(cons, goal_terms, max_new, rounds=6):
    """Constraints reachable from the goal's variables through constraints that introduce at
    most `max_new` new variables each (keeps big, entangling constraints out)."""
    cur = set()
    for g in goal_terms:
        cur |= vars_of(g)
    hub = {"pi"}  # ubiquitous symbols do not count as a connection
    cur -= hub
    fv = [(f, vars_of(f) - hub) for f in cons]
    used = [False] * len(fv)
    # the first constraint mentioning a fresh variable (name!k) is its definition: always unfolded
    first = {}
    for i, (_f, v) in enumerate(fv):
        for n in v:
            if "!" in n and n not in first:
                first[n] = i
    defs = {}
    for n, i in first.items():
        defs.setdefault(i, set()).add(n)
    for _ in range(rounds):
        changed = False
        for i, (f, v) in enumerate(fv):
            if used[i]:
                continue
            if not v or (v & cur and len(v - cur) <= max_new) or (i in defs and defs[i] & cur):
                used[i] = True
                changed = True
                cur |= v
        if not changed:
            break
    return [f for (f, _v), u in zip(fv, used) if u]


def check(C: Ctx, claim, timeout_ms=60000, extra=(), inputs=None, with_uf=True, with_mono=True, cons=None, staged=True):
    """Is `claim` implied by the context? -> ('unsat'|'sat'|'unknown', time, model dict).
    Goal-directed: the negated claim is first tried against growing cone-of-influence subsets
    of the constraints (any `unsat` on a subset is a sound verdict), then against all of them."""
    if isinstance(claim, SV):
        claim = claim.term()
    allc = list(cons if cons is not None else base_constraints(C, with_uf, with_mono)) + list(extra)
    t = time.time()
    attempts = []
    if staged and len(allc) > 40 and not (z3.is_true(claim) or z3.is_false(claim)):
        seen_sizes = set()
        for mn in (1, 2, 4):
            sub = narrow_closure(allc, [claim], mn)
            if len(sub) < len(allc) and len(sub) not in seen_sizes:
                seen_sizes.add(len(sub))
                attempts.append((sub, max(2000, timeout_ms // 10)))
        lv = relevance_levels(allc, [claim])
        for sub in lv:
            if len(sub) >= len(allc):
                break
            if len(sub) not in seen_sizes:
                seen_sizes.add(len(sub))
                attempts.append((sub, max(2000, timeout_ms // 10)))
    attempts.append((allc, timeout_ms))
    r, s = "unknown", None
    for sub, to in attempts:
        s = mk_solver(to)
        s.add(*sub)
        s.add(z3.Not(claim))
        try:
            r = str(s.check())
        except z3.Z3Exception:
            r = "unknown"
        C.queries += 1
        if r == "unsat":
            break
        if sub is not allc:
            r = "unknown"
    dt = time.time() - t
    C.solver_time += dt
    mdl = None
    if r == "sat" and inputs:
        m = s.model()
        mdl = {}
        for k, v in inputs.items():
            mdl[k] = model_value(m, v.term() if isinstance(v, SV) else v)
    return r, dt, mdl


def to_smt2(cons, neg_claim):
    s = z3.Solver()
    s.add(*cons)
    s.add(neg_claim)
    return s.to_smt2()


def second_opinion(cons, neg_claim, timeout_s=60):
    """/usr/bin/z3 4.8.12 on the SMT-LIB2 text of the same query."""
    txt = to_smt2(cons, neg_claim)
    txt = txt.replace("(check-sat)", "(check-sat-using qfnra-nlsat)")
    try:
        p = subprocess.run(["/usr/bin/z3", "-in", f"-T:{int(timeout_s)}"], input=txt, capture_output=True, text=True, timeout=timeout_s + 10)
    except subprocess.TimeoutExpired:
        return "unknown"
    out = p.stdout.strip().splitlines()
    if any(l.startswith("(error") for l in out):
        return "error"
    for l in out:
        if l in ("sat", "unsat", "unknown"):
            return l
    return "unknown"


# ---------------------------------------------------------------------------------
# DFS exploration
# ---------------------------------------------------------------------------------
def explore(run, max_paths=20000, prune=True, prune_timeout_ms=3000):
    """Run `run(ctx)` once per feasible decision trail. Yields (ctx, result)."""
    trail = []
    n = 0
    while True:
        C = Ctx(trail, prune=prune, prune_timeout_ms=prune_timeout_ms)
        Ctx.current = C
        aborted = False
        try:
            out = run(C)
        except PathAbort:
            aborted = True
            out = None
        finally:
            Ctx.current = None
        if not aborted:
            n += 1
            if n > max_paths:
                raise core.HarnessError("path cap hit")
            yield C, out
        t = C.trail[: C.pos] if C.pos <= len(C.trail) else C.trail
        t = list(t)
        while t and (t[-1].forced or t[-1].value is False):
            t.pop()
        if not t:
            return
        last = t[-1]
        t[-1] = core.Decision(last.term, False, False)
        trail = t
