"""Solver layer: nlsat queries, Ackermann axioms, angle monotonicity axioms, DFS path
exploration, model extraction, second-solver cross-check."""
from __future__ import annotations

import itertools
import os
import subprocess
import time
from fractions import Fraction as Fr

import z3

from . import core
from .core import PI, Ctx, PathAbort, SV


class _WatchedSolver:
    """nlsat does not always honour its timeout parameter (a changed implementation produced a query that ran for
    20 minutes under a 48 s limit): every check() is additionally guarded by a watchdog thread that interrupts z3
    shortly after the deadline; an interrupted query is `unknown`."""

    def __init__(self, s, timeout_ms, guarded=False):
        self._s, self._to, self.guarded = s, timeout_ms, guarded

    def __getattr__(self, n):
        return getattr(self._s, n)

    def _precheck_in_child(self):
        """Full-context fallback queries are where nlsat has been seen to ignore both its timeout and the interrupt (inside
        algebraic-number arithmetic).  Such a query is first run in a forked child under a hard kill; only if the child
        comes back in time is it run again in this process (deterministic: it then terminates too) to obtain the model."""
        import select
        import signal

        rfd, wfd = os.pipe()
        pid = os.fork()
        if pid == 0:
            try:
                os.close(rfd)
                try:
                    r = str(self._s.check())
                except BaseException:  # noqa
                    r = "unknown"
                os.write(wfd, r.encode())
            finally:
                os._exit(0)
        os.close(wfd)
        try:
            ready, _, _ = select.select([rfd], [], [], self._to / 1000.0 + 5.0)
            out = os.read(rfd, 64).decode() if ready else ""
        finally:
            os.close(rfd)
            try:
                os.kill(pid, signal.SIGKILL)
            except OSError:
                pass
            try:
                os.waitpid(pid, 0)
            except OSError:
                pass
        return out or "timeout"

    def check(self, *a):
        import threading

        if self.guarded and not a and os.environ.get("VERIF_FORK_GUARD") == "1":
            pre = self._precheck_in_child()
            if pre not in ("sat", "unsat"):
                return z3.unknown
        fired = []

        def _stop():
            fired.append(1)
            z3.main_ctx().interrupt()

        wd = threading.Timer(self._to / 1000.0 + 3.0, _stop)
        wd.daemon = True
        wd.start()
        try:
            r = self._s.check(*a)
        except z3.Z3Exception:
            if not fired:
                raise
            r = z3.unknown
        finally:
            wd.cancel()
        return z3.unknown if fired else r


def mk_solver(timeout_ms, guarded=False):
    s = z3.Tactic("qfnra-nlsat").solver()
    s.set("timeout", int(timeout_ms))
    return _WatchedSolver(s, int(timeout_ms), guarded)


def _has_arith_nonlinear_free(fs):
    return False


def uf_axioms(C: Ctx):
    """Pairwise congruence / monotonicity / inverse axioms for the Ackermannised
    applications recorded in the context (sound instances of real-function facts)."""
    ax = []
    U = C.uf

    def pairs(f):
        return itertools.combinations(U.get(f, []), 2)

    for fam in ("exp", "exp10", "log", "log10"):
        for (a1, r1, _), (a2, r2, _) in pairs(fam):
            x1, x2 = a1[0], a2[0]
            if fam in ("exp", "exp10"):
                ax.append((x1 < x2) == (r1 < r2))
                ax.append((x1 == x2) == (r1 == r2))
            else:
                # log is only meaningful on positive arguments
                g = z3.And(x1 > 0, x2 > 0)
                ax.append(z3.Implies(g, (x1 < x2) == (r1 < r2)))
                ax.append(z3.Implies(g, (x1 == x2) == (r1 == r2)))
    for fe, fl in (("exp", "log"), ("exp10", "log10")):
        for (ae, re_, _) in U.get(fe, []):
            for (al, rl, _) in U.get(fl, []):
                y, x = ae[0], al[0]
                ax.append(z3.Implies(x == re_, rl == y))
                ax.append(z3.Implies(z3.And(y == rl, x > 0), re_ == x))
                # exp is strictly increasing and exp(log x) = x:  y < log x  <=>  exp y < x
                ax.append(z3.Implies(x > 0, (y < rl) == (re_ < x)))
                ax.append(z3.Implies(z3.And(x > 0, x * re_ == 1), rl == -y))
                ax.append(z3.Implies(z3.And(x > 0, y == -rl), re_ * x == 1))  # exp(-log x) = 1/x
    # exp(a) * exp(b) relations: exp(a+b) -- instantiate for triples only when small
    for fam in ("exp", "exp10"):
        apps = U.get(fam, [])
        if len(apps) <= 6:
            for (a1, r1, _), (a2, r2, _), (a3, r3, _) in itertools.permutations(apps, 3):
                if a1[0].get_id() < a2[0].get_id():
                    ax.append(z3.Implies(a3[0] == a1[0] + a2[0], r3 == r1 * r2))
    for fam in ("log", "log10"):
        apps = U.get(fam, [])
        if len(apps) <= 6:
            for (a1, r1, _), (a2, r2, _), (a3, r3, _) in itertools.permutations(apps, 3):
                if a1[0].get_id() < a2[0].get_id():
                    ax.append(z3.Implies(z3.And(a1[0] > 0, a2[0] > 0, a3[0] == a1[0] * a2[0]), r3 == r1 + r2))
    # uninterpreted abstractions (opaque_math): congruence only
    for fam, apps in U.items():
        if fam.startswith("opq_") and len(apps) <= 60:
            for (a1, r1, _), (a2, r2, _) in itertools.combinations(apps, 2):
                ax.append(z3.Implies(z3.And(*[x == y for x, y in zip(a1, a2)]), r1 == r2))
    # pow(x, k)
    P = U.get("pow", [])
    for (a, r, _) in P:
        x, k = a
        ax.append(z3.Implies(z3.And(x > 0, k == 0), r == 1))
        ax.append(z3.Implies(k == 1, r == x))
        ax.append(z3.Implies(z3.And(x == 1), r == 1))
        ax.append(z3.Implies(z3.And(x > 1, k > 0), r > 1))
        ax.append(z3.Implies(z3.And(x > 0, x < 1, k > 0), z3.And(r > 0, r < 1)))
        ax.append(z3.Implies(z3.And(x > 1, k < 0), z3.And(r > 0, r < 1)))
        ax.append(z3.Implies(z3.And(x > 0, x < 1, k < 0), r > 1))
    for (a1, r1, _), (a2, r2, _) in itertools.permutations(P, 2):
        x1, k1 = a1
        x2, k2 = a2
        pos = z3.And(x1 > 0, x2 > 0)
        ax.append(z3.Implies(z3.And(pos, k1 == k2, k1 > 0), (x1 < x2) == (r1 < r2)))
        ax.append(z3.Implies(z3.And(pos, k1 == k2, k1 < 0), (x1 < x2) == (r1 > r2)))
        if a1[0].get_id() <= a2[0].get_id():
            ax.append(z3.Implies(z3.And(x1 == x2, k1 == k2), r1 == r2))
            ax.append(z3.Implies(z3.And(pos, k1 == k2, k1 != 0), (x1 == x2) == (r1 == r2)))
            ax.append(z3.Implies(z3.And(pos, x1 * x2 == 1, k1 == k2), r1 * r2 == 1))
            ax.append(z3.Implies(z3.And(pos, x1 == x2, k1 == -k2), r1 * r2 == 1))
        # inverse pairs
        ax.append(z3.Implies(z3.And(x1 > 0, x2 == r1, k1 * k2 == 1), r2 == x1))
        ax.append(z3.Implies(z3.And(x1 > 0, x2 * r1 == 1, k1 * k2 == 1), r2 * x1 == 1))
    if getattr(C, "tangent", False):
        ax += tangent_axioms(C)
    return ax


def tangent_axioms(C: Ctx):
    """Quantitative, still sound, instances of convexity facts (used where a tolerance has to be established and
    monotonicity alone is not enough): exp lies above each of its tangents, log below, and Bernoulli's inequality
    (1+u)^k >= 1+ku for k >= 1 or k <= 0, <= for 0 <= k <= 1 (u > -1), instantiated at the applications that occur --
    against the point 0 resp. 1 and pairwise (tangent at the other application)."""
    ax = []
    U = C.uf
    E = U.get("exp", [])
    for (a, r, _) in E:
        ax.append(r >= 1 + a[0])
    for (a1, r1, _), (a2, r2, _) in itertools.permutations(E, 2):
        ax.append(r2 >= r1 * (1 + (a2[0] - a1[0])))
    Lg = U.get("log", [])
    for (a, r, _) in Lg:
        ax.append(z3.Implies(a[0] > 0, r <= a[0] - 1))
    for (a1, r1, _), (a2, r2, _) in itertools.permutations(Lg, 2):
        ax.append(z3.Implies(z3.And(a1[0] > 0, a2[0] > 0), (r2 - r1) * a1[0] <= a2[0] - a1[0]))
    P = U.get("pow", [])
    for (a, r, _) in P:
        x, k = a
        ax.append(z3.Implies(z3.And(x > 0, z3.Or(k >= 1, k <= 0)), r >= 1 + k * (x - 1)))
        ax.append(z3.Implies(z3.And(x > 0, k >= 0, k <= 1), r <= 1 + k * (x - 1)))
    for (a1, r1, _), (a2, r2, _) in itertools.permutations(P, 2):
        x1, k1 = a1
        x2, k2 = a2
        g = z3.And(x1 > 0, x2 > 0, k1 == k2)
        # r2 / r1 = (x2/x1)^k
        ax.append(z3.Implies(z3.And(g, z3.Or(k1 >= 1, k1 <= 0)), r2 * x1 >= r1 * (x1 + k1 * (x2 - x1))))
        ax.append(z3.Implies(z3.And(g, k1 >= 0, k1 <= 1), r2 * x1 <= r1 * (x1 + k1 * (x2 - x1))))
    return ax


def mono_axioms(C: Ctx):
    """Monotonicity of sin/cos on their principal branches, instantiated for pairs of
    primitive angles of the same inverse-function family (and for compared pairs)."""
    ax = []
    by = {}
    for p in C.prims:
        by.setdefault(p.kind, []).append(p)
    for p, q in itertools.combinations(by.get("arccos", []), 2):
        ax.append((p.t < q.t) == (p.c > q.c))
        ax.append((p.t == q.t) == (p.c == q.c))
    for p, q in itertools.combinations(by.get("arcsin", []), 2):
        ax.append((p.t < q.t) == (p.s < q.s))
        ax.append((p.t == q.t) == (p.s == q.s))
    # free / opaque / const angles compared with principal-branch angles: guarded by range
    others = by.get("free", []) + by.get("opaque", []) + by.get("const", [])
    for p in others:
        for q in by.get("arccos", []) + [o for o in others if o is not p]:
            g = z3.And(p.t >= 0, p.t <= PI, q.t >= 0, q.t <= PI)
            ax.append(z3.Implies(g, (p.t < q.t) == (p.c > q.c)))
            ax.append(z3.Implies(g, (p.t == q.t) == (p.c == q.c)))
        # cosine is even: for a negative angle compare -p with the principal-branch angle
        for q in by.get("arccos", []):
            g = z3.And(-p.t >= 0, -p.t <= PI, q.t >= 0, q.t <= PI)
            ax.append(z3.Implies(g, (-p.t < q.t) == (p.c > q.c)))
            ax.append(z3.Implies(g, (-p.t == q.t) == (p.c == q.c)))
        for q in by.get("arcsin", []) + [o for o in others if o is not p]:
            g = z3.And(p.t >= -PI / 2, p.t <= PI / 2, q.t >= -PI / 2, q.t <= PI / 2)
            ax.append(z3.Implies(g, (p.t < q.t) == (p.s < q.s)))
            ax.append(z3.Implies(g, (p.t == q.t) == (p.s == q.s)))
        # sign facts for a lone angle
        ax.append(z3.Implies(z3.And(p.t > 0, p.t < PI), p.s > 0))
        ax.append(z3.Implies(z3.And(p.t > -PI, p.t < 0), p.s < 0))
        ax.append(z3.Implies(z3.And(p.t > -PI / 2, p.t < PI / 2), p.c > 0))
        ax.append(z3.Implies(z3.And(p.t > PI / 2, p.t < 3 * PI / 2), p.c < 0))
        ax.append(z3.Implies(p.t == 0, z3.And(p.s == 0, p.c == 1)))
        ax.append(z3.Implies(p.t == PI / 2, z3.And(p.s == 1, p.c == 0)))
        ax.append(z3.Implies(p.t == PI, z3.And(p.s == 0, p.c == -1)))
        ax.append(z3.Implies(p.t == -PI / 2, z3.And(p.s == -1, p.c == 0)))
    return ax


def compared_pair_axioms(C: Ctx):
    """Monotonicity of cos / sin for every pair of angle-valued expressions that the code (or a
    harness assumption) compared: both sides' (sin, cos) come from the addition formulas."""
    ax, seen = [], set()
    old = Ctx.current
    Ctx.current = C
    try:
        for a, b in list(C.mono_pairs):
            ra, rb = _as_rad(a, b), _as_rad(b, a)
            if ra is None or rb is None:
                continue
            key = (ra.term().get_id(), rb.term().get_id())
            if key in seen or ra.term().eq(rb.term()):
                continue
            seen.add(key)
            try:
                (sa, ca), (sb, cb) = core.sincos(ra), core.sincos(rb)
            except core.Unsupported:
                continue
            ta, tb = ra.term(), rb.term()
            g = z3.And(ta >= 0, ta <= PI, tb >= 0, tb <= PI)
            ax.append(z3.Implies(g, (ta < tb) == (ca > cb)))
            ax.append(z3.Implies(g, (ta == tb) == (ca == cb)))
            g = z3.And(ta >= -PI / 2, ta <= PI / 2, tb >= -PI / 2, tb <= PI / 2)
            ax.append(z3.Implies(g, (ta < tb) == (sa < sb)))
            ax.append(z3.Implies(g, (ta == tb) == (sa == sb)))
    finally:
        Ctx.current = old
    return ax


def _as_rad(x, other):
    """radian-valued SV for an angle expression (degrees are converted), None if not an angle"""
    x = SV.of(x)
    if x.unit == "deg":
        if x.rad is None:
            return None
        return SV(t=x.rad, A=x.A)
    if x.t is None:
        if isinstance(x.c, float):
            return None
        o = SV.of(other)
        if o.unit == "deg":
            return core.sv_radians(x)
        if x.c == 0:
            return x
        return None  # a bare number compared with a radian angle: no point on the circle known
    if x.A is None:
        return None
    return x


def base_constraints(C: Ctx, with_uf=True, with_mono=True):
    extra = []
    if with_mono and C.mono_pairs:
        extra = compared_pair_axioms(C)  # may register circle points: before the facts are copied
    cons = list(C.facts) + list(C.pre) + list(C.pc)
    if with_uf and C.uf:
        cons += uf_axioms(C)
    if with_mono and C.prims:
        cons += mono_axioms(C)
    return cons + extra


def quick_feasible(C: Ctx, lit, timeout_ms):
    """Is context /\\ lit satisfiable?  'unsat' | 'sat' | 'unknown' (lazy, goal-directed)."""
    t = time.time()
    allc = base_constraints(C)
    r = "unknown"
    if len(allc) > 25:
        for batch, share in ((1, 0.4), (4, 0.3)):
            r, _s = lazy_check(allc, z3.Not(lit), timeout_ms * share, C, max_iter=100, batch=batch)
            if r != "unknown":
                break
    if r == "unknown":
        s = mk_solver(max(500, timeout_ms * 0.3) if len(allc) > 25 else timeout_ms)
        s.add(*allc)
        s.add(lit)
        r = str(s.check())
        C.queries += 1
    C.solver_time += time.time() - t
    return r


def path_feasible(C: Ctx, cons, timeout_ms):
    """Reachability witness for a path: the path condition together with every constraint
    connected to it has a model."""
    if not C.pc:
        s = mk_solver(timeout_ms)
        s.add(*cons)
        return str(s.check())
    pcs = [p for p in C.pc]
    rest = [f for f in cons if not any(f is p or f.eq(p) for p in pcs)]
    goal = z3.Not(z3.And(*pcs)) if len(pcs) > 1 else z3.Not(pcs[0])
    r = "unknown"
    for batch, share in ((2, 0.4), (8, 0.3)):
        r, _s = lazy_check(rest, goal, timeout_ms * share, C, max_iter=150, batch=batch)
        if r != "unknown":
            break
    if r == "unknown":
        s = mk_solver(timeout_ms * 0.3)
        s.add(*cons)
        r = str(s.check())
    return r


class Verdict:
    __slots__ = ("name", "result", "time", "model", "reason", "kind")

    def __init__(self, name, result, t, model=None, reason="", kind="claim"):
        self.name, self.result, self.time, self.model, self.reason, self.kind = name, result, t, model, reason, kind

    def as_dict(self):
        d = {"obligation": self.name, "verdict": self.result, "time_s": round(self.time, 3), "kind": self.kind}
        if self.model is not None:
            d["model"] = self.model
        if self.reason:
            d["reason"] = self.reason
        return d


def model_value(m, t):
    v = m.eval(t, model_completion=True)
    if z3.is_rational_value(v):
        return float(Fr(v.numerator_as_long(), v.denominator_as_long()))
    if z3.is_algebraic_value(v):
        a = v.approx(30)
        return float(Fr(a.numerator_as_long(), a.denominator_as_long()))
    if z3.is_true(v):
        return True
    if z3.is_false(v):
        return False
    try:
        return float(v.as_decimal(30).rstrip("?"))
    except Exception:
        return None


_VARS = {}


def vars_of(e):
    k = e.get_id()
    hit = _VARS.get(k)
    if hit is not None and hit[0].eq(e):
        return hit[1]
    acc = set()
    todo, seen = [e], set()
    while todo:
        x = todo.pop()
        i = x.get_id()
        if i in seen:
            continue
        seen.add(i)
        if z3.is_const(x) and x.decl().kind() == z3.Z3_OP_UNINTERPRETED:
            acc.add(x.decl().name())
        else:
            todo.extend(x.children())
    _VARS[k] = (e, acc)
    return acc


def max_fresh(e):
    """largest index k of a fresh variable name!k occurring in e (0 if none)"""
    m = 0
    for n in vars_of(e):
        if "!" in n:
            try:
                m = max(m, int(n.rsplit("!", 1)[1]))
            except ValueError:
                pass
    return m


def before(cons, stamp):
    """constraints that only mention fresh variables created up to `stamp` (program order)"""
    return [f for f in cons if max_fresh(f) <= stamp]


def relevance_levels(cons, goal_terms, max_levels=4):
    """Cone-of-influence layers: constraints sharing variables with the goal, then with those, ..."""
    need = set()
    for g in goal_terms:
        need |= vars_of(g)
    fv = [(f, vars_of(f)) for f in cons]
    used = [False] * len(fv)
    levels = []
    for _ in range(max_levels):
        new = [i for i, (f, v) in enumerate(fv) if not used[i] and (v & need or not v)]
        if not new:
            break
        for i in new:
            used[i] = True
            need |= fv[i][1]
        levels.append([f for (f, _v), u in zip(fv, used) if u])
        if all(used):
            break
    return levels


def narrow_closure(cons, goal_terms, max_new, rounds=6):
    """Constraints reachable from the goal's variables through constraints that introduce at
    most `max_new` new variables each (keeps big, entangling constraints out)."""
    cur = set()
    for g in goal_terms:
        cur |= vars_of(g)
    hub = {"pi"}  # ubiquitous symbols do not count as a connection
    cur -= hub
    fv = [(f, vars_of(f) - hub) for f in cons]
    used = [False] * len(fv)
    # the first constraint mentioning a fresh variable (name!k) is its definition: always unfolded
    first = {}
    for i, (_f, v) in enumerate(fv):
        for n in v:
            if "!" in n and n not in first:
                first[n] = i
    defs = {}
    for n, i in first.items():
        defs.setdefault(i, set()).add(n)
    for _ in range(rounds):
        changed = False
        for i, (f, v) in enumerate(fv):
            if used[i]:
                continue
            if not v or (v & cur and len(v - cur) <= max_new) or (i in defs and defs[i] & cur):
                used[i] = True
                changed = True
                cur |= v
        if not changed:
            break
    return [f for (f, _v), u in zip(fv, used) if u]


def lazy_check(allc, claim, timeout_ms, C=None, max_iter=60, batch=6):
    """Counterexample-guided constraint selection. Start from the constraints over the goal's
    own variables; while the negated claim is satisfiable, add constraints that the model
    violates and that are connected to the variables already in play. `unsat` on a subset is a
    sound proof; `sat` is only reported when the model satisfies every connected constraint.
    -> (verdict, solver | None)"""
    hub = {"pi"}
    gv = vars_of(claim) - hub
    fv = [(f, vars_of(f) - hub) for f in allc]
    inset = [False] * len(fv)
    cur = set(gv)
    for i, (f, v) in enumerate(fv):
        if not v or v <= cur:
            inset[i] = True
    t_end = time.time() + timeout_ms / 1000.0
    for it in range(max_iter):
        left = t_end - time.time()
        if left <= 0.2:
            return "unknown", None
        s = mk_solver(int(min(left * 1000, max(2000, timeout_ms / 6))))
        s.add(*[f for (f, _v), u in zip(fv, inset) if u])
        s.add(z3.Not(claim))
        try:
            r = str(s.check())
        except z3.Z3Exception:
            r = "unknown"
        if C is not None:
            C.queries += 1
        if os.environ.get("VERIF_DEBUG"):
            print(f"      lazy it={it} size={sum(inset)}/{len(fv)} -> {r}", flush=True)
        if r == "unsat":
            return "unsat", s
        if r != "sat":
            return "unknown", None
        m = s.model()
        viol = []
        # evaluating constraints at a model with algebraic numbers can take unboundedly long:
        # a watchdog thread interrupts z3 at the deadline; the query is then undecided
        import threading

        cancelled = []

        def _stop():
            cancelled.append(1)
            z3.main_ctx().interrupt()

        wd = threading.Timer(max(1.0, t_end - time.time()), _stop)
        wd.start()
        try:
            for i, (f, v) in enumerate(fv):
                if inset[i] or not (v & cur):
                    continue
                if cancelled:
                    break
                try:
                    val = m.eval(f, model_completion=True)
                except z3.Z3Exception:
                    val = None
                if val is None or not z3.is_true(val):
                    viol.append((len(v - cur), len(v), i))
        finally:
            wd.cancel()
        if cancelled:
            return "unknown", None
        if not viol:
            return "sat", s
        viol.sort()
        for _n, _l, i in viol[:batch]:
            inset[i] = True
            cur |= fv[i][1]
    return "unknown", None


def check(C: Ctx, claim, timeout_ms=60000, extra=(), inputs=None, with_uf=True, with_mono=True, cons=None, staged=True):
    """Is `claim` implied by the context? -> ('unsat'|'sat'|'unknown', time, model dict)."""
    if isinstance(claim, SV):
        claim = claim.term()
    if JOB_DEADLINE is not None and time.time() > JOB_DEADLINE:
        return "unknown", 0.0, None  # the job's time budget is exhausted: the obligation is undecided, never waited for
    allc = list(cons if cons is not None else base_constraints(C, with_uf, with_mono)) + list(extra)
    t = time.time()
    r, s = "unknown", None
    if staged and len(allc) > 25 and not (z3.is_true(claim) or z3.is_false(claim)):
        # nlsat is very sensitive to irrelevant constraints: grow the subset one constraint at a
        # time first, then in larger batches
        for batch, share in ((1, 0.25), (2, 0.2), (6, 0.15)):
            r, s = lazy_check(allc, claim, timeout_ms * share, C, max_iter=200, batch=batch)
            if r != "unknown":
                break
    if r == "unknown":
        s = mk_solver(timeout_ms if not staged else max(2000, timeout_ms * 0.4), guarded=True)
        s.add(*allc)
        s.add(z3.Not(claim))
        try:
            r = str(s.check())
        except z3.Z3Exception:
            r = "unknown"
        C.queries += 1
    elif r == "sat":
        # confirm against all constraints (unconnected components included) so that the model is complete
        s2 = mk_solver(max(2000, timeout_ms * 0.4), guarded=True)
        s2.add(*allc)
        s2.add(z3.Not(claim))
        try:
            r2 = str(s2.check())
        except z3.Z3Exception:
            r2 = "unknown"
        C.queries += 1
        if r2 == "unsat":
            r = "unsat"
            s = s2  # the full set decided it
        elif r2 == "sat":
            s = s2
    dt = time.time() - t
    C.solver_time += dt
    global LAST_ASSERTIONS
    # the assertion set that decided the query (for the second solver: the same subset, not the whole context)
    LAST_ASSERTIONS = list(s.assertions()) if (s is not None and r in ("sat", "unsat")) else None
    mdl = None
    if r == "sat" and inputs:
        m = s.model()
        mdl = {}
        for k, v in inputs.items():
            if v is None:
                continue
            mdl[k] = model_value(m, v.term() if isinstance(v, SV) else v)
    return r, dt, mdl


def to_smt2(cons, neg_claim):
    s = z3.Solver()
    s.add(*cons)
    s.add(neg_claim)
    return s.to_smt2()


LAST_ASSERTIONS = None
JOB_DEADLINE = None  # wall-clock limit of the running job's obligations (set by harness.run_job)


def second_opinion(cons, neg_claim, timeout_s=60, assertions=None):
    """/usr/bin/z3 4.8.12 on the SMT-LIB2 text of the same query (`assertions`: the deciding subset incl. the
    negated claim, when the primary verdict came from a subset)."""
    if assertions is not None:
        s_ = z3.Solver()
        s_.add(*assertions)
        txt = s_.to_smt2()
    else:
        txt = to_smt2(cons, neg_claim)
    txt = txt.replace("(check-sat)", "(check-sat-using qfnra-nlsat)")
    if os.environ.get("VERIF_DUMP_SECOND"):
        import hashlib as _h

        with open(os.path.join(os.environ["VERIF_DUMP_SECOND"], _h.sha1(txt.encode()).hexdigest()[:12] + ".smt2"), "w") as _f:
            _f.write(txt)
    try:
        p = subprocess.run(["/usr/bin/z3", "-in", f"-T:{int(timeout_s)}"], input=txt, capture_output=True, text=True, timeout=timeout_s + 10)
    except subprocess.TimeoutExpired:
        return "unknown"
    out = p.stdout.strip().splitlines()
    if any(l.startswith("(error") for l in out):
        return "error"
    for l in out:
        if l in ("sat", "unsat", "unknown"):
            return l
    return "unknown"


# ---------------------------------------------------------------------------------
# DFS exploration
# ---------------------------------------------------------------------------------
def explore(run, max_paths=20000, prune=True, prune_timeout_ms=3000):
    """Run `run(ctx)` once per feasible decision trail. Yields (ctx, result)."""
    trail = []
    n = 0
    while True:
        C = Ctx(trail, prune=prune, prune_timeout_ms=prune_timeout_ms)
        Ctx.current = C
        aborted = False
        try:
            out = run(C)
        except PathAbort:
            aborted = True
            out = None
        finally:
            Ctx.current = None
        if not aborted:
            n += 1
            if n > max_paths:
                raise core.HarnessError("path cap hit")
            yield C, out
        t = C.trail[: C.pos] if C.pos <= len(C.trail) else C.trail
        t = list(t)
        while t and (t[-1].forced or t[-1].value is False):
            t.pop()
        if not t:
            return
        last = t[-1]
        t[-1] = core.Decision(last.term, False, False)
        trail = t
