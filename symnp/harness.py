"""Per-path obligation discharge shared by all property harnesses."""
from __future__ import annotations

import os
import time
import traceback

import z3

from . import core, load, solve
from .core import Ctx, SV


def _t(x):
    if isinstance(x, SV):
        return x.term()
    if isinstance(x, bool):
        return z3.BoolVal(x)
    return x


_SRC = {}


def src_line(where):
    """Text of the /repo source line a definedness obligation was raised at."""
    try:
        rel, ln = where.rsplit(":", 1)
        path = load.REPO_SRC + "/nuspacesim/" + rel
        if path not in _SRC:
            with open(path) as f:
                _SRC[path] = f.read().splitlines()
        return _SRC[path][int(ln) - 1]
    except Exception:
        return ""


class GenLemma:
    """Generalisation cut (DESIGN 1.8 (i)): `goal` is proved from `premises` alone after the
    compound terms in `abstract` have been replaced by fresh variables; every premise is
    itself proved in the full context first. Sound: the goal then holds for every value of
    the abstracted terms that satisfies the premises, the real ones included."""

    def __init__(self, name, goal, premises=(), abstract=(), with_uf=False, whole_context=False, kind="lemma"):
        """whole_context: the abstraction is applied to EVERY constraint of the context (definitions,
        path condition, proved lemmas); the premises are the only facts kept about the abstracted terms'
        internal structure."""
        self.name, self.goal, self.premises, self.abstract, self.with_uf = name, goal, list(premises), list(abstract), with_uf
        self.whole_context = whole_context
        self.kind = kind  # "claim": a clause of the property itself, proved in generalised form


def prove_genlemma(C, L, cons, timeout_ms):
    """-> (verdict, time, detail)"""
    t0 = time.time()
    for i, p in enumerate(L.premises):
        r, dt, _ = solve.check(C, _t(p), timeout_ms, cons=cons)
        if r != "unsat":
            return r, time.time() - t0, f"premise {i} not proved ({r})"
    subs = []
    for k, term in enumerate(L.abstract):
        term = _t(term)
        subs.append((term, z3.Real(f"gen!{L.name}!{k}")))
    g = z3.substitute(_t(L.goal), *subs) if subs else _t(L.goal)
    ps = [z3.substitute(_t(p), *subs) if subs else _t(p) for p in L.premises]
    if L.whole_context:
        ctxs = [z3.substitute(f, *subs) if subs else f for f in cons] + ps
        r, dt, _m = solve.check(C, g, timeout_ms, cons=ctxs)
        return r if r == "unsat" else "unknown", time.time() - t0, "generalised goal (whole context) " + r
    s = solve.mk_solver(timeout_ms)
    s.add(*ps)
    if L.with_uf:
        s.add(*[z3.substitute(a, *subs) if subs else a for a in solve.uf_axioms(C)])
        s.add(C.facts[0], C.facts[1])
    s.add(z3.Not(g))
    r = str(s.check())
    C.queries += 1
    return r, time.time() - t0, "generalised goal " + r


class Out:
    """What a harness run returns for one path."""

    def __init__(self, claims=None, inputs=None, lemmas=None, info=None, skip_defd=None, gens=None, observe=None):
        self.observe = observe or {}  # name -> SV | SymArray | z3 term: outputs compared with the real code
        self.claims = claims or {}  # name -> z3 Bool | SV | bool
        self.inputs = inputs or {}  # name -> SV | z3 term  (free inputs, for models)
        self.lemmas = lemmas or []  # ordered [(name, formula)]: proved, then assumed
        self.info = info or {}
        self.skip_defd = skip_defd  # callable(tag, where) -> reason str | None
        self.gens = gens or []


def _call_skip(f, dtag, where, cond):
    """skip_defd callables take (tag, where) or (tag, where, condition term)"""
    import inspect

    try:
        n = len(inspect.signature(f).parameters)
    except (TypeError, ValueError):
        n = 2
    return f(dtag, where, cond) if n >= 3 else f(dtag, where)


def same_function(a, b, trials=3, seed=7):
    """Do two z3 real terms denote the same rational function of the uninterpreted constants they mention?
    Decided by exact evaluation at random rational points (Schwartz-Zippel); used only to LOCATE a sub-term of
    the code's result that plays a known role -- what is then claimed about it is proved by the solver."""
    import random
    from fractions import Fraction as Fr

    rnd = random.Random(seed)
    consts = {}

    def collect(t):
        st, seen = [t], set()
        while st:
            x = st.pop()
            if x.get_id() in seen:
                continue
            seen.add(x.get_id())
            if z3.is_const(x) and x.decl().kind() == z3.Z3_OP_UNINTERPRETED:
                consts[x.get_id()] = x
            st.extend(x.children())

    collect(a)
    collect(b)
    for _ in range(trials):
        sub = [(c, z3.RealVal(str(Fr(rnd.randint(1000, 9999), rnd.randint(1000, 9999))))) for c in consts.values() if z3.is_real(c)]
        va, vb = z3.simplify(z3.substitute(a, *sub)), z3.simplify(z3.substitute(b, *sub))
        if not (z3.is_rational_value(va) and z3.is_rational_value(vb)) or not va.eq(vb):
            return False
    return True


def find_subterm(root, ref):
    """outermost sub-term of `root` that is the same rational function as `ref` (or None)"""
    st, seen = [root], set()
    while st:
        x = st.pop(0)
        if x.get_id() in seen:
            continue
        seen.add(x.get_id())
        if z3.is_real(x) and not z3.is_rational_value(x) and same_function(x, ref):
            return x
        st.extend(x.children())
    return None


def euf_to_fp(e, fpvars, F=None):
    """Translate an EUF shadow term (uninterpreted applications euf_add / euf_neg / euf_mul / euf_div over rational
    constants and real variables: the operations the code performed, in its order, constants not folded) into an
    IEEE double term with round-to-nearest-even operations.  Real variables become double variables (collected in
    fpvars).  Anything else -> KeyError (the side condition is then not decidable here)."""
    F = z3.Float64() if F is None else F
    rm = z3.RNE()
    if z3.is_rational_value(e):
        from fractions import Fraction as Fr

        return z3.FPVal(float(Fr(e.numerator_as_long(), e.denominator_as_long())), F)
    if z3.is_const(e) and e.decl().kind() == z3.Z3_OP_UNINTERPRETED:
        n = e.decl().name()
        if n not in fpvars:
            fpvars[n] = z3.FP(n, F)
        return fpvars[n]
    name = e.decl().name()
    ch = [euf_to_fp(c, fpvars, F) for c in e.children()]
    if name == "euf_add":
        return z3.fpAdd(rm, ch[0], ch[1])
    if name == "euf_neg":
        return z3.fpNeg(ch[0])
    if name == "euf_mul":
        return z3.fpMul(rm, ch[0], ch[1])
    if name == "euf_div":
        return z3.fpDiv(rm, ch[0], ch[1])
    # exact-arithmetic nodes that the shim builds itself from such operations
    k = e.decl().kind()
    if k == z3.Z3_OP_ADD:
        r = ch[0]
        for c in ch[1:]:
            r = z3.fpAdd(rm, r, c)
        return r
    if k == z3.Z3_OP_SUB and len(ch) == 2:
        return z3.fpSub(rm, ch[0], ch[1])
    if k == z3.Z3_OP_MUL and len(ch) == 2:
        return z3.fpMul(rm, ch[0], ch[1])
    if k == z3.Z3_OP_DIV:
        return z3.fpDiv(rm, ch[0], ch[1])
    if k == z3.Z3_OP_UMINUS:
        return z3.fpNeg(ch[0])
    raise KeyError(name)


def arange_fp_check(ev, ranges, timeout_ms=120000):
    """The floating-point side condition of one ("arange-float", start, stop, step, L, where) event recorded by the
    shim (needs C.euf so that the operands carry their operation history): is there a value of the variables, inside
    `ranges` {name: (lo, hi)}, for which NumPy's IEEE length ceil((stop - start) / step) differs from the exact length L?
    -> (verdict 'unsat' | 'sat' | 'unknown', model {name: float} | None, seconds)"""
    import time as _t

    _tag, start, stop, step, L, _where = ev
    F = z3.Float64()
    fpvars = {}
    try:
        fs, fe, fst = (euf_to_fp(core.eterm(x), fpvars, F) for x in (start, stop, step))
    except KeyError as ex:
        return "unknown", {"untranslatable": str(ex)}, 0.0
    q = z3.fpDiv(z3.RNE(), z3.fpSub(z3.RNE(), fe, fs), fst)
    n = z3.fpRoundToIntegral(z3.RTP(), q)
    s = z3.Solver()
    s.set("timeout", int(timeout_ms))
    for name, v in fpvars.items():
        lo, hi = ranges.get(name, (None, None))
        if lo is None:
            return "unknown", {"no range for": name}, 0.0
        s.add(z3.fpGEQ(v, z3.FPVal(float(lo), F)), z3.fpLEQ(v, z3.FPVal(float(hi), F)))
    s.add(z3.Not(z3.fpEQ(n, z3.FPVal(float(L), F))))
    t0 = _t.time()
    # two IEEE divisions of a symbolic double: the cvc5 binary decides these in seconds to a minute where z3's
    # bit-blaster does not finish in five minutes (probed); z3 is the fallback and the cross-check for small cases
    r, mdl = _cvc5_fp(s, list(fpvars), timeout_ms)
    if r == "unknown":
        r = str(s.check())
        if r == "sat":
            m = s.model()
            mdl = {}
            for name, v in fpvars.items():
                hv = m[v]
                x = float(hv.significand()) * 2.0 ** hv.exponent_as_long(False)
                mdl[name] = -x if hv.isNegative() else x
    dt = _t.time() - t0
    return r, mdl, dt


def _cvc5_fp(solver, names, timeout_ms):
    """/usr/bin/cvc5 on the SMT-LIB text of a z3 solver (QF_FP). -> (verdict, {name: float} | None)"""
    import os
    import re
    import shutil
    import struct
    import subprocess
    import tempfile

    exe = shutil.which("cvc5")
    if exe is None:
        return "unknown", None
    txt = "(set-logic QF_FP)\n" + solver.to_smt2() + "\n(get-model)\n"
    with tempfile.TemporaryDirectory() as d:
        f = os.path.join(d, "q.smt2")
        with open(f, "w") as fh:
            fh.write(txt)
        try:
            p = subprocess.run([exe, "--produce-models", f"--tlimit={int(timeout_ms)}", f], capture_output=True, text=True, timeout=timeout_ms / 1000 + 20)
        except subprocess.TimeoutExpired:
            return "unknown", None
    out = p.stdout
    first = out.strip().splitlines()[0] if out.strip() else ""
    if first == "unsat":
        return "unsat", None
    if first != "sat":
        return "unknown", None
    mdl = {}
    for n in names:
        m = re.search(r"\(define-fun " + re.escape(n) + r" \(\) \(_ FloatingPoint 11 53\) \(fp #b([01]) #b([01]{11}) #b([01]{52})\)\)", out)
        if not m:
            return "unknown", None
        bits = int(m.group(1) + m.group(2) + m.group(3), 2)
        mdl[n] = struct.unpack(">d", bits.to_bytes(8, "big"))[0]
    return "sat", mdl


def _concolic_false(runs, cname, tag):
    """-> the input values of the first concolic run at which claim `cname` is false, else None"""
    from . import concolic as _cc

    for vals, C2, o2 in runs:
        if cname not in o2.claims:
            continue
        try:
            if not _cc.holds(_t(o2.claims[cname]), C2.shadow, tol=1e-6):
                return dict(vals)
        except BaseException as e:  # noqa
            if isinstance(e, (KeyboardInterrupt, SystemExit)):
                raise
            continue
    return None


def run_job(name, run, *, timeout_ms=60000, max_paths=20000, prune=True, prune_timeout_ms=3000,
            twin=True, watch=(), second=False, feas_timeout_ms=15000, witness=None):
    """witness: optional (sampler(rng) -> {name: float}, n): concrete points run concolically
    through the harness; a symbolic path whose decision sequence a concrete point follows
    (with all preconditions true there) has a reachability witness even if nlsat finds no model."""
    """Explore all paths of `run(C) -> Out`, discharge definedness obligations, lemmas and
    claims per path. Returns a JSON-able dict."""
    t0 = time.time()
    verdicts = []
    res = {"job": name, "paths": 0, "paths_infeasible": 0, "paths_feas_unknown": 0, "queries": 0,
           "solver_time": 0.0, "verdicts": verdicts, "skipped_definedness": [], "events": [], "draws": [],
           "error": None, "info": []}
    try:
        tr = load.Tracer(watch)
        with tr:
            gen = solve.explore(run, max_paths=max_paths, prune=prune, prune_timeout_ms=prune_timeout_ms)
            # a changed implementation can blow the exploration up (thousands of slow pruning queries): the job then stops
            # exploring, checks the paths it has, and is reported incomplete (exit 2 unless one of them is a violation)
            solve.JOB_DEADLINE = t0 + float(os.environ.get("VERIF_JOB_BUDGET_S", "900" if timeout_ms <= 240000 else "3600"))
            core.DEADLINE = t0 + float(os.environ.get("VERIF_EXPLORE_BUDGET_S", "240" if timeout_ms <= 240000 else "1500"))
            paths = []
            cap_hit = False
            try:
                for C, out in gen:
                    paths.append((C, out, dict(tr.locals)))
            except core.HarnessError as e:
                if "path cap hit" not in str(e):
                    raise
                # the explored paths are still checked (a counterexample on one of them is a counterexample);
                # the job is reported as incomplete afterwards
                cap_hit = True
        core.DEADLINE = None
        if cap_hit and len(paths) > 30:
            paths = paths[:30]  # the job is incomplete anyway: look for a counterexample on the first paths only
        res["functions"] = sorted(tr.funcs)
        witnessed = set()
        conc_runs = {}  # path index -> list of (values, concolic ctx, concolic Out)
        if witness is not None and paths:
            import numpy as _np

            from . import concolic

            sampler, nw = witness
            rng = _np.random.default_rng(12345)
            for _k in range(nw):
                if len(witnessed) == len(paths) and _k >= max(8, nw // 2):
                    break
                try:
                    vals = sampler(rng)
                    C2, _o2 = concolic.run_at(run, dict(vals), check_axioms=False)
                    if not all(concolic.holds(f, C2.shadow, tol=1e-9) for f in C2.pre):
                        continue
                except BaseException as e:  # noqa
                    if isinstance(e, (KeyboardInterrupt, SystemExit)):
                        raise
                    continue
                for pi, (C, _out, _l) in enumerate(paths):
                    if len(C.decisions) != len(C2.decisions):
                        continue
                    if all(a[0].eq(b[0]) and a[1] == b[1] for a, b in zip(C.decisions, C2.decisions)):
                        witnessed.add(pi)
                        if len(conc_runs.setdefault(pi, [])) < 150:
                            conc_runs[pi].append((dict(vals), C2, _o2))
                        break
            res["witnessed_paths"] = len(witnessed)
        for pi, (C, out, _loc) in enumerate(paths):
            Ctx.current = C
            tag = f"{name}[p{pi}]"
            cons = solve.base_constraints(C)
            # reachability / vacuity twin: the path must be satisfiable
            ts = time.time()
            feas = "sat" if pi in witnessed else solve.path_feasible(C, cons, min(timeout_ms, feas_timeout_ms))
            C.queries += 1
            C.solver_time += time.time() - ts
            if feas == "unsat":
                res["paths_infeasible"] += 1
                res["queries"] += C.queries
                res["solver_time"] += C.solver_time
                continue
            res["paths"] += 1
            if feas != "sat":
                res["paths_feas_unknown"] += 1
            if twin:
                verdicts.append({"obligation": f"{tag}/twin(False must be sat)" + (" [concrete witness through the encoding]" if pi in witnessed else ""),
                                 "verdict": "sat" if feas == "sat" else "unknown", "time_s": round(time.time() - ts, 3), "kind": "twin"})
            proved = []
            inputs = out.inputs
            # 1. definedness obligations, in program order; proved ones become facts
            for di, (dtag, where, cond) in enumerate(C.defd):
                why = _call_skip(out.skip_defd, dtag, where, cond) if out.skip_defd else None
                if why:
                    res["skipped_definedness"].append({"tag": dtag, "where": where, "reason": why})
                    proved.append(cond)  # not claimed: later obligations are relative to the operation being defined
                    continue
                stamp = C.defd_stamp[di] if di < len(C.defd_stamp) else 10**9
                r, dt, mdl = solve.check(C, cond, timeout_ms, inputs=inputs, cons=solve.before(cons, stamp) + proved)
                v = {"obligation": f"{tag}/defined:{dtag}@{where}#{di}", "verdict": r, "time_s": round(dt, 3), "kind": "definedness"}
                if mdl is not None:
                    v["model"] = mdl
                verdicts.append(v)
                # continue under the assumption that the operation is defined
                proved.append(cond)
            # 2. lemmas (cuts): prove, then assume
            for lem in out.lemmas:
                if isinstance(lem, GenLemma):
                    r, dt, detail = prove_genlemma(C, lem, cons + proved, timeout_ms)
                    verdicts.append({"obligation": f"{tag}/{'lemma' if lem.kind == 'lemma' else 'claim'}(generalised):{lem.name}", "verdict": r if r == "unsat" else "unknown", "time_s": round(dt, 3),
                                     "kind": lem.kind, "reason": detail})
                    if r == "unsat":
                        proved.append(_t(lem.goal))
                    continue
                lname, lf = lem
                lf = _t(lf)
                r, dt, mdl = solve.check(C, lf, timeout_ms, inputs=inputs, cons=cons + proved)
                v = {"obligation": f"{tag}/lemma:{lname}", "verdict": r, "time_s": round(dt, 3), "kind": "lemma"}
                if mdl is not None:
                    v["model"] = mdl
                verdicts.append(v)
                if r == "unsat":
                    proved.append(lf)
            # 3. claims
            for cname, cf in out.claims.items():
                cf = _t(cf)
                pre = _concolic_false(conc_runs.get(pi, ()), cname, tag)
                if pre is not None:
                    # the claim is false at a concrete point that follows this path through the encoding:
                    # that point IS a satisfying assignment of the negated claim; no solver search needed
                    verdicts.append({"obligation": f"{tag}/{cname}", "verdict": "sat", "time_s": 0.0, "kind": "claim", "model": pre,
                                     "reason": "claim false at a concrete point run through the encoding (concolic); handed to the replay like a solver model"})
                    continue
                if z3.is_false(cf) and feas == "sat":
                    # a claim that is literally False on a path with a reachability witness: its negation holds on the whole path
                    # (every point of the path is a counterexample: hand the replay one of them -- the concrete point that
                    # witnessed the path, else a solver model of the path condition -- so that it probes the right regime)
                    r, dt, mdl = "sat", 0.0, {}
                    if conc_runs.get(pi):
                        mdl = dict(conc_runs[pi][0][0])
                    else:
                        _r2, dt, _m2 = solve.check(C, cf, min(timeout_ms, 10000), inputs=inputs, cons=cons + proved)
                        if _r2 == "sat" and _m2:
                            mdl = _m2
                else:
                    r, dt, mdl = solve.check(C, cf, timeout_ms, inputs=inputs, cons=cons + proved)
                v = {"obligation": f"{tag}/{cname}", "verdict": r, "time_s": round(dt, 3), "kind": "aux" if cname.startswith("(internal)") else "claim"}
                if mdl is not None:
                    v["model"] = mdl
                if second and r in ("sat", "unsat"):
                    # an unsat verdict is cross-checked on the subset that proved it; a sat verdict on the full context
                    r2 = solve.second_opinion(cons + proved, z3.Not(cf), timeout_s=min(30, max(10, timeout_ms // 1000)),
                                              assertions=solve.LAST_ASSERTIONS if r == "unsat" else None)
                    v["second_solver"] = r2
                verdicts.append(v)
            # undecided claims: try to falsify them at the concrete points that follow this path through
            # the encoding; a false claim there is handed to the replay like a solver model
            if pi in conc_runs:
                from . import concolic as _cc

                und = [v for v in verdicts if v["obligation"].startswith(tag + "/") and v["kind"] in ("claim",) and v["verdict"] not in ("sat", "unsat")]
                for v in und:
                    cname = v["obligation"][len(tag) + 1:]
                    for vals, C2, o2 in conc_runs[pi]:
                        f = None
                        if cname in o2.claims:
                            f = _t(o2.claims[cname])
                        else:
                            for lem in o2.lemmas:
                                if isinstance(lem, GenLemma) and cname.endswith(lem.name):
                                    f = _t(lem.goal)
                        if f is None:
                            continue
                        try:
                            ok_ = _cc.holds(f, C2.shadow, tol=1e-6)
                        except BaseException:  # noqa
                            continue
                        if not ok_:
                            v["verdict"] = "sat"
                            v["model"] = {k: x for k, x in vals.items()}
                            v["reason"] = "solver undecided; claim false at a concrete point run through the encoding (concolic)"
                            break
            for ev in C.events:
                res["events"].append({"path": pi, "event": list(ev)})
            if out.info:
                res["info"].append({"path": pi, **out.info})
            res["queries"] += C.queries
            res["solver_time"] += C.solver_time
        Ctx.current = None
        if cap_hit:
            res["error"] = f"HarnessError: path cap hit: more than {max_paths} paths or the exploration time budget exhausted; only the first {len(paths)} were explored and checked"
    except BaseException as e:  # noqa
        if isinstance(e, (KeyboardInterrupt, SystemExit)):
            raise
        res["error"] = f"{type(e).__name__}: {e}\n{traceback.format_exc()}"
    solve.JOB_DEADLINE = None
    core.DEADLINE = None
    res["sha"] = dict(load.SHA)
    res["wall_s"] = round(time.time() - t0, 3)
    return res


def plain_job(name, fn):
    """Wrap a job that manages its own solver calls; fn() -> list of verdict dicts (+ extras)."""
    t0 = time.time()
    res = {"job": name, "paths": 1, "paths_infeasible": 0, "paths_feas_unknown": 0, "queries": 0, "solver_time": 0.0,
           "verdicts": [], "skipped_definedness": [], "events": [], "draws": [], "error": None, "info": [], "functions": []}
    try:
        tr = load.Tracer()
        with tr:
            out = fn()
        res["functions"] = sorted(tr.funcs)
        res["verdicts"] = out["verdicts"]
        res["queries"] = out.get("queries", len(out["verdicts"]))
        res["solver_time"] = out.get("solver_time", sum(v.get("time_s", 0) for v in out["verdicts"]))
        res["paths"] = out.get("paths", 1)
        res["info"] = out.get("info", [])
        if "functions" in out:
            res["functions"] = sorted(set(res["functions"]) | set(out["functions"]))
    except BaseException as e:  # noqa
        if isinstance(e, (KeyboardInterrupt, SystemExit)):
            raise
        res["error"] = f"{type(e).__name__}: {e}\n{traceback.format_exc()}"
    res["sha"] = dict(load.SHA)
    res["wall_s"] = round(time.time() - t0, 3)
    return res


def _num_of(C, x):
    import numpy as np

    from .arr import SymArray

    if isinstance(x, SymArray):
        return [_num_of(C, e) for e in x.a.reshape(-1)]
    if isinstance(x, (list, tuple)):
        return [_num_of(C, e) for e in x]
    if isinstance(x, SV):
        if x.t is None:
            return bool(x.c) if x.kind == "B" else float(x.c)
        return C.ev(x.t)
    if isinstance(x, z3.ExprRef):
        return C.ev(x)
    if isinstance(x, (np.ndarray,)):
        return [float(e) for e in x.reshape(-1)]
    return x


def validate(run, sampler, real, n, seed, rel=1e-9, abs_=1e-12, check_claims=True):
    """Translator validation: n concrete points through (a) the real module with real NumPy
    (`real(values) -> {name: value}`) and (b) the encoding evaluated at those points."""
    import numpy as np

    from . import concolic

    rng = np.random.default_rng(seed)
    ok = 0
    failures = []
    for i in range(n):
        vals = sampler(rng)
        C, out = concolic.run_at(run, dict(vals))
        exp = real(vals)
        if exp is None:
            continue
        for k, ev_ in exp.items():
            if k not in out.observe:
                raise core.HarnessError(f"validation: harness does not observe {k}")
            got = _num_of(C, out.observe[k])
            e = ev_
            if isinstance(e, np.ndarray):
                e = [x.item() for x in e.reshape(-1)]
            if isinstance(e, (list, tuple)):
                if len(e) != len(got):
                    raise core.HarnessError(f"validation: {k}: length {len(got)} (encoding) vs {len(e)} (real) at {vals}")
                pairs = zip(got, e)
            else:
                if isinstance(got, list) and len(got) == 1:
                    got = got[0]
                pairs = [(got, e)]
            for g, r in pairs:
                if isinstance(r, (bool, np.bool_)) or isinstance(g, bool):
                    if bool(g) != bool(r):
                        raise core.HarnessError(f"validation: {k}: encoding {g} vs real {r} at {vals}")
                elif not concolic.close(float(g), float(r), rel, abs_):
                    raise core.HarnessError(f"validation: {k}: encoding {g!r} vs real {r!r} at {vals}")
        if check_claims:
            # every claim proved by the solver must also hold at the concrete point
            # (the encoding agrees with the real code at this point, so a false claim here is a
            #  counterexample candidate: it is handed to the replay like a solver model)
            for cname, cf in out.claims.items():
                if not concolic.holds(_t(cf), C.shadow, tol=1e-6):
                    failures.append({"obligation": f"concrete point/{cname}", "verdict": "sat", "time_s": 0.0, "kind": "claim", "model": dict(vals)})
        ok += 1
    if failures:
        return ok, failures
    return ok
