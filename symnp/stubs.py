"""Library stubs: reference models of compiled / I/O code the shim cannot execute.
Every stub is part of the claim and is listed in the evidence of the checks that use it."""
from __future__ import annotations

import itertools
from fractions import Fraction as Fr

import numpy as _np
import z3

from . import core
from .arr import SymArray, to_obj
from .core import SV, ctx
from .shim import NP, as_sym


class GridStub:
    """Duck-typed NssGrid (data, axes, axis_names, grid['name']) holding symbolic data.
    (NssGrid itself derives from astropy NDDataArray whose constructor needs real ndarrays.)"""

    def __init__(self, data, axes, axis_names):
        if len(axes) != len(axis_names):
            raise ValueError("Must give same number of names as axes.")
        self.data = as_sym(data)
        if len(axes) != self.data.ndim:
            raise ValueError("Must give same number of axes as grid dimensions.")
        self.axes = [as_sym(a) for a in axes]
        for i, a in enumerate(self.axes):
            if a.ndim != 1:
                raise ValueError("Each axis must be 1D.")
            if a.shape[0] != self.data.shape[i]:
                raise ValueError("Axes lengths must correspond to grid dimensions.")
        self.axis_names = list(axis_names)

    def __getitem__(self, item):
        if isinstance(item, str):
            return self.axes[self.axis_names.index(item)]
        if isinstance(item, int):
            return self.axes[item]
        raise core.Unsupported("GridStub slicing")

    @property
    def ndim(self):
        return self.data.ndim

    @property
    def shape(self):
        return self.data.shape


def _locate(axis: SymArray, p: SV, dim, bounds_error=True):
    """cell index i with axis[i] <= p <= axis[i+1] (forks); ValueError outside."""
    n = axis.shape[0]
    lo_out = bool(p < axis.a[0])
    hi_out = False if lo_out else bool(p > axis.a[n - 1])
    if lo_out or hi_out:
        if bounds_error:
            raise ValueError(f"One of the requested xi is out of bounds in dimension {dim}")
        return None
    for k in range(1, n - 1):
        if bool(p < axis.a[k]):
            return k - 1
    return n - 2


def multilinear(axes, values: SymArray, point, bounds_error=True, fill_value=float("nan"), log=None):
    """Reference multilinear interpolation at one point (list of SV)."""
    d = len(axes)
    cells, ws = [], []
    for j in range(d):
        ax = as_sym(axes[j])
        p = SV.of(point[j])
        i = _locate(ax, p, j, bounds_error)
        if i is None:
            return SV.of(fill_value) if values.ndim == d else SymArray(_np.full(values.shape[d:], SV.of(fill_value), dtype=object))
        a0, a1 = ax.a[i], ax.a[i + 1]
        t = (p - a0) / (a1 - a0)
        cells.append(i)
        ws.append(t)
    InterpRecorder.cells.append({"cell": tuple(cells), "weights": ws})
    res = None
    for corner in itertools.product((0, 1), repeat=d):
        w = SV(c=Fr(1))
        for j, b in enumerate(corner):
            w = w * (ws[j] if b else (SV(c=Fr(1)) - ws[j]))
        idx = tuple(cells[j] + b for j, b in enumerate(corner))
        v = values[idx]
        term = v * w
        res = term if res is None else res + term
    return res


class InterpRecorder:
    calls = []
    cells = []


def _points(xi, d):
    """scipy-style xi: tuple of d array-likes (broadcast) -> list of points, out shape"""
    if isinstance(xi, (tuple, list)) and len(xi) == d:
        arrs = [to_obj(x) for x in xi]
        shape = _np.broadcast_shapes(*[a.shape for a in arrs])
        arrs = [_np.broadcast_to(a, shape) for a in arrs]
        pts = [[arrs[j][idx] for j in range(d)] for idx in _np.ndindex(*shape)]
        return pts, shape
    a = to_obj(xi)
    if a.shape[-1] != d:
        raise ValueError("The requested sample points xi have wrong dimension")
    shape = a.shape[:-1]
    pts = [[a[idx + (j,)] for j in range(d)] for idx in _np.ndindex(*shape)]
    return pts, shape


def interpn(points, values, xi, method="linear", bounds_error=True, fill_value=float("nan")):
    """scipy.interpolate.interpn stub (linear): reference multilinear interpolation."""
    if method != "linear":
        raise core.Unsupported("interpn method " + method)
    values = as_sym(values)
    d = len(points)
    InterpRecorder.calls.append({"fn": "interpn", "points": points, "values": values, "xi": xi, "bounds_error": bounds_error})
    pts, shape = _points(xi, d)
    trailing = values.shape[d:]
    out = _np.empty(shape + trailing, dtype=object)
    for idx, p in zip(_np.ndindex(*shape), pts):
        r = multilinear(points, values, p, bounds_error, fill_value)
        if trailing:
            out[idx] = r.a if isinstance(r, SymArray) else r
        else:
            out[idx] = r
    return SymArray(out, "float")


class RegularGridInterpolator:
    """scipy.interpolate.RegularGridInterpolator stub (linear)."""

    def __init__(self, points, values, method="linear", bounds_error=True, fill_value=float("nan")):
        if method != "linear":
            raise core.Unsupported("RegularGridInterpolator method " + method)
        self.grid = [as_sym(p) for p in points]
        self.values = as_sym(values)
        self.bounds_error = bounds_error
        self.fill_value = fill_value
        if len(self.grid) > self.values.ndim:
            raise ValueError("There are %d point arrays, but values has %d dimensions" % (len(self.grid), self.values.ndim))
        for i, p in enumerate(self.grid):
            if p.shape[0] != self.values.shape[i]:
                raise ValueError("There are %d points and %d values in dimension %d" % (p.shape[0], self.values.shape[i], i))
        InterpRecorder.calls.append({"fn": "RegularGridInterpolator", "points": self.grid, "values": self.values, "bounds_error": bounds_error})

    def __call__(self, xi, method=None):
        d = len(self.grid)
        pts, shape = _points(xi, d)
        InterpRecorder.calls.append({"fn": "RegularGridInterpolator.__call__", "xi": xi})
        out = _np.empty(shape, dtype=object)
        for idx, p in zip(_np.ndindex(*shape), pts):
            out[idx] = multilinear(self.grid, self.values, p, self.bounds_error, self.fill_value)
        if shape == ():
            return out[()]
        return SymArray(out, "float")


class interp1d:
    """scipy.interpolate.interp1d stub (linear, along `axis`)."""

    def __init__(self, x, y, kind="linear", axis=-1, bounds_error=None, fill_value=float("nan"), **k):
        if kind != "linear":
            raise core.Unsupported("interp1d kind " + str(kind))
        self.x = as_sym(x)
        self.y = as_sym(y)
        self.axis = axis % self.y.ndim
        if self.x.ndim != 1:
            raise ValueError("the x array must have exactly one dimension.")
        if self.x.shape[0] != self.y.shape[self.axis]:
            raise ValueError("x and y arrays must be equal in length along interpolation axis.")
        self.bounds_error = True if bounds_error is None else bounds_error
        InterpRecorder.calls.append({"fn": "interp1d", "x": self.x, "y": self.y, "axis": axis})

    def __call__(self, v):
        v = SV.of(v)
        i = _locate(self.x, v, 0, self.bounds_error)
        if i is None:
            raise core.Unsupported("interp1d fill")
        a0, a1 = self.x.a[i], self.x.a[i + 1]
        t = (v - a0) / (a1 - a0)
        y = _np.moveaxis(self.y.a, self.axis, 0)
        lo, hi = SymArray(y[i]), SymArray(y[i + 1])
        if y[i].ndim == 0:
            return y[i][()] * (SV(c=Fr(1)) - t) + y[i + 1][()] * t
        return lo * (SV(c=Fr(1)) - t) + hi * t
