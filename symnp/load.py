"""Load the repository's real source with `np` (and declared library names) rebound.

The source is read from /repo's working tree on every run; nothing is copied by hand."""
from __future__ import annotations

import hashlib
import importlib
import os
import sys
import types

import numpy as _np

from .arr import SymArray
from .shim import NP

REPO_SRC = os.environ.get("VERIF_REPO_SRC", "/repo/src")
SHA = {}
_KEEP = []
FUNCS = set()


def path_of(modname):
    p = os.path.join(REPO_SRC, *modname.split("."))
    if os.path.isdir(p):
        return os.path.join(p, "__init__.py")
    return p + ".py"


def load(modname, overrides=None, np=NP, convert_arrays=True):
    """exec the module source in a fresh namespace; returns the namespace dict."""
    path = path_of(modname)
    try:
        importlib.import_module(modname)  # the real module must exist in sys.modules (pydantic / relative imports look it up)
    except Exception:
        pass
    with open(path, "rb") as f:
        raw = f.read()
    SHA[os.path.relpath(path, REPO_SRC)] = hashlib.sha256(raw).hexdigest()
    code = compile(raw, path, "exec")
    pkg = modname.rsplit(".", 1)[0] if not path.endswith("__init__.py") else modname
    # exec inside a temporary module object installed in sys.modules: libraries that resolve
    # names through sys.modules[cls.__module__] (pydantic forward references) must see THIS namespace
    tmp = types.ModuleType(modname)
    ns = tmp.__dict__
    ns.update({"__name__": modname, "__package__": pkg, "__file__": path, "__builtins__": __builtins__})
    real = sys.modules.get(modname)
    sys.modules[modname] = tmp
    try:
        exec(code, ns)
    finally:
        if real is not None:
            sys.modules[modname] = real
        else:
            sys.modules.pop(modname, None)
    _KEEP.append(tmp)
    if np is not None and "np" in ns:
        ns["np"] = np
    if convert_arrays:
        from .core import SV

        for k, v in list(ns.items()):
            if type(v) is _np.ndarray and not k.startswith("__"):
                ns[k] = SymArray(v)
            elif type(v) is float and not k.startswith("__") and np is not None:
                # module-level float constants take part in exact (REAL-mode) arithmetic:
                # `1.0 / gmr` must not be rounded by the Python float division
                ns[k] = SV.of(v)
    for k, v in (overrides or {}).items():
        ns[k] = v
    return ns


class Tracer:
    """Records which /repo functions were entered and snapshots locals of watched ones."""

    def __init__(self, watch=()):
        self.watch = set(watch)
        self.locals = {}
        self.funcs = set()

    def _prof(self, frame, event, arg):
        co = frame.f_code
        if event == "call":
            fn = co.co_filename
            if fn.startswith(REPO_SRC) and not co.co_name.startswith("<"):
                self.funcs.add(f"{os.path.relpath(fn, REPO_SRC)}:{co.co_qualname if hasattr(co, 'co_qualname') else co.co_name}")
        elif event == "return" and co.co_name in self.watch and co.co_filename.startswith(REPO_SRC):
            self.locals[co.co_name] = dict(frame.f_locals)

    def __enter__(self):
        sys.setprofile(self._prof)
        return self

    def __exit__(self, *a):
        sys.setprofile(None)
        FUNCS.update(self.funcs)
        return False
