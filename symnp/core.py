"""symnp core: symbolic scalar values (SV), execution context, forking, definedness,
algebraised trigonometry and Ackermannised transcendental functions.

Arithmetic mode implemented here is REAL (exact real arithmetic over z3 Real terms).
Concrete values are exact rationals (Fractions): a float literal that is within 1e-15
relative of a rational with denominator <= 1000 denotes that rational, every other
double denotes its exact binary value.
"""
from __future__ import annotations

import math
import time
import sys
from fractions import Fraction as Fr

import numpy as _np
import z3

try:
    import mpmath
    from mpmath import iv as _iv

    _iv.dps = 25
except Exception:  # pragma: no cover
    mpmath = None
    _iv = None


DEADLINE = None  # wall-clock limit of the path exploration of the running job (set by harness.run_job)


class Unsupported(Exception):
    """The shim met something it does not model: harness error, never a verdict."""


class HarnessError(Exception):
    pass


class PathAbort(BaseException):
    """Raised to abandon the current path (infeasible)."""


PI = z3.Real("pi")
_PI_LO = Fr(314159265358979323846, 10**20)
_PI_HI = Fr(314159265358979323847, 10**20)


def lit_fr(x) -> Fr:
    """Literal rule for concrete doubles (see module docstring)."""
    if isinstance(x, Fr):
        return x
    if isinstance(x, (bool, _np.bool_)):
        return Fr(int(x))
    if isinstance(x, (int, _np.integer)):
        return Fr(int(x))
    f = float(x)
    if math.isinf(f) or math.isnan(f):
        raise Unsupported(f"non-finite literal {f}")
    e = Fr(f)
    g = e.limit_denominator(1000)
    if g == e:
        return e
    if abs(float(g) - f) <= 1e-15 * max(abs(f), 1e-300):
        return g
    return e


def rv(fr: Fr):
    return z3.RealVal(f"{fr.numerator}/{fr.denominator}") if fr.denominator != 1 else z3.RealVal(fr.numerator)


def _where():
    """Source position (file:line) in /repo of the operation being executed."""
    f = sys._getframe(2)
    while f is not None:
        fn = f.f_code.co_filename
        if fn.startswith("/repo/") or "/nuspacesim/" in fn and "/verif/" not in fn:
            return f"{fn.split('/nuspacesim/')[-1]}:{f.f_lineno}"
        f = f.f_back
    return "harness"


# ---------------------------------------------------------------------------------
# context
# ---------------------------------------------------------------------------------
class Decision:
    __slots__ = ("term", "value", "forced")

    def __init__(self, term, value, forced):
        self.term, self.value, self.forced = term, value, forced


class Prim:
    """A primitive angle: value term t (radians) with sine and cosine terms."""

    __slots__ = ("t", "s", "c", "kind", "name", "third", "half")

    def __init__(self, t, s, c, kind, name=""):
        self.t, self.s, self.c, self.kind, self.name = t, s, c, kind, name
        self.third = None
        self.half = None


class Ctx:
    current: "Ctx" = None

    def __init__(self, trail=(), prune=True, prune_timeout_ms=3000):
        self.facts = [PI > rv(_PI_LO), PI < rv(_PI_HI)]
        self.pre = []
        self.pc = []
        self.trail = list(trail)  # list of Decision (prefix to follow)
        self.pos = 0
        self.cache = {}  # term id -> (term, value)
        self.defd = []  # (tag, where, cond)
        self.defd_stamp = []  # fresh-variable counter when the obligation was raised
        self.sqrt_cache = {}
        self.cbrt_cache = {}
        self.circ = {}
        self.consts = {}
        self.uf = {}  # family -> list of (args(tuple of z3 terms), result term, meta)
        self.prims = []
        self.events = []  # ("mutate-input", name, where) ...
        self.ndraw = 0
        self.draws = []
        self.prune = prune
        self.prune_timeout_ms = prune_timeout_ms
        self.nfresh = 0
        self.queries = 0
        self.solver_time = 0.0
        self.funcs = set()
        self.mono_pairs = []
        self.keep = []  # keep z3 terms alive (ids are recycled after GC)
        self.decisions = []  # (term, value) in program order, symbolic and concolic runs alike
        self.shadow = None  # concolic translator validation: variable name -> float
        self.euf = False  # also build the EUF shadow term of every value
        self.simplify_stores = True  # masked scalar stores are simplified against the path condition
        self.opaque_math = False  # structural harnesses: sqrt/exp/log/trig results are uninterpreted (sound abstraction)
        self.shadow_checked = 0
        self.tangent = False  # quantitative (tangent-line / Bernoulli) axiom instances for exp, log, pow

    # -- fresh symbols ------------------------------------------------------------
    def fresh(self, prefix, sort="R", val=None):
        self.nfresh += 1
        n = f"{prefix}!{self.nfresh}"
        if self.shadow is not None:
            if val is None:
                raise HarnessError(f"no concrete value rule for fresh variable {n}")
            try:
                self.shadow[n] = val() if callable(val) else val
            except (ValueError, ZeroDivisionError, OverflowError):
                self.shadow[n] = float("nan")
        return z3.Real(n) if sort == "R" else z3.Bool(n)

    def named(self, name, val=None):
        """A named (non-fresh) Real constant of the encoding."""
        if self.shadow is not None and name not in self.shadow:
            if val is None:
                raise HarnessError(f"no concrete value for {name}")
            self.shadow[name] = val() if callable(val) else val
        return z3.Real(name)

    def ev(self, t):
        """numeric value of a term at the concolic point"""
        from .concolic import numeval

        if isinstance(t, SV):
            t = t.term()
        return numeval(t, self.shadow)

    def _check_shadow(self, fs, what):
        from .concolic import holds

        for f in fs:
            self.shadow_checked += 1
            if not holds(f, self.shadow):
                raise HarnessError(f"{what} does not hold at the concrete validation point: {f}")

    def assume(self, *fs):
        self.pre.extend(fs)

    def fact(self, *fs):
        if self.shadow is not None:
            self._check_shadow(fs, "fact of the encoding")
        self.facts.extend(fs)

    def all_constraints(self):
        return self.facts + self.pre + self.pc

    # -- forking ------------------------------------------------------------------
    def decide(self, b) -> bool:
        if isinstance(b, (bool, _np.bool_)):
            return bool(b)
        b = z3.simplify(b)
        if z3.is_true(b):
            return True
        if z3.is_false(b):
            return False
        k = b.get_id()
        if k in self.cache and self.cache[k][0].eq(b):
            return self.cache[k][1]
        # negated form cached?
        nb = z3.simplify(z3.Not(b))
        kn = nb.get_id()
        if kn in self.cache and self.cache[kn][0].eq(nb):
            return not self.cache[kn][1]
        if self.shadow is not None:
            from .concolic import numeval

            v = bool(numeval(b, self.shadow))
            self.pc.append(b if v else z3.Not(b))
            self.cache[k] = (b, v)
            self.decisions.append((b, v))
            return v
        if self.pos < len(self.trail):
            d = self.trail[self.pos]
            if not d.term.eq(b):
                raise HarnessError("non-deterministic re-execution: decision term differs from the recorded trail")
            v = d.value
        else:
            v, forced = True, False
            if DEADLINE is not None and time.time() > DEADLINE:
                raise HarnessError("path cap hit: exploration time budget exhausted")
            if self.prune:
                from .solve import quick_feasible

                ft = quick_feasible(self, b, self.prune_timeout_ms)
                ff = quick_feasible(self, z3.Not(b), self.prune_timeout_ms)
                if ft == "unsat" and ff == "unsat":
                    raise PathAbort()
                if ft == "unsat":
                    v, forced = False, True
                elif ff == "unsat":
                    v, forced = True, True
            d = Decision(b, v, forced)
            self.trail.append(d)
        self.pos += 1
        self.pc.append(b if v else z3.Not(b))
        self.cache[k] = (b, v)
        self.decisions.append((b, v))
        return v

    # -- definedness --------------------------------------------------------------
    def need(self, tag, cond):
        """Record a definedness obligation; returns the condition (used as guard)."""
        if isinstance(cond, bool):
            if not cond:
                self.defd.append((tag, _where(), z3.BoolVal(False)))
                self.defd_stamp.append(self.nfresh)
            return z3.BoolVal(cond)
        c = z3.simplify(cond)
        if z3.is_true(c):
            return c
        self.defd.append((tag, _where(), c))
        self.defd_stamp.append(self.nfresh)  # only values created before the operation can matter for it
        return c


def ctx() -> Ctx:
    if Ctx.current is None:
        raise HarnessError("no active symnp context")
    return Ctx.current


# ---------------------------------------------------------------------------------
# symbolic scalar
# ---------------------------------------------------------------------------------
class Ang:
    """Angle bookkeeping: linear combination of primitive angles + rational multiple of pi.
    Only used to produce sin/cos terms; the numeric value lives in SV.t."""

    __slots__ = ("lin", "pic")

    def __init__(self, lin, pic=Fr(0)):
        self.lin = lin  # dict id(prim) -> (Prim, Fr)
        self.pic = pic

    def scaled(self, k: Fr):
        return Ang({i: (p, c * k) for i, (p, c) in self.lin.items() if c * k != 0}, self.pic * k)

    def plus(self, o: "Ang"):
        d = dict(self.lin)
        for i, (p, c) in o.lin.items():
            if i in d:
                n = d[i][1] + c
                if n == 0:
                    del d[i]
                else:
                    d[i] = (p, n)
            else:
                d[i] = (p, c)
        return Ang(d, self.pic + o.pic)


def _is_num(x):
    return isinstance(x, (int, float, Fr, bool, _np.integer, _np.floating, _np.bool_))


class SV:
    """Symbolic (or exact concrete) scalar. kind: 'R' real/int, 'B' bool."""

    __slots__ = ("t", "c", "kind", "A", "unit", "rad", "e10", "isint", "e")
    __array_ufunc__ = None
    __array_priority__ = 1000

    def __init__(self, t=None, c=None, kind="R", A=None, unit=None, rad=None, e10=None, isint=False):
        self.t, self.c, self.kind, self.A, self.unit, self.rad, self.e10, self.isint = t, c, kind, A, unit, rad, e10, isint
        self.e = None  # EUF shadow term (uninterpreted arithmetic, no folding): bit-level congruence claims

    # -- constructors ---------------------------------------------------------------
    @staticmethod
    def of(x) -> "SV":
        if isinstance(x, SV):
            return x
        if isinstance(x, (bool, _np.bool_)):
            return SV(c=bool(x), kind="B")
        if isinstance(x, (int, _np.integer)):
            return SV(c=Fr(int(x)), isint=True)
        if isinstance(x, (float, _np.floating)):
            f = float(x)
            if math.isinf(f):
                return SV(c=f)  # +-inf kept as float marker
            if math.isnan(f):
                raise Unsupported("NaN literal")
            return SV(c=lit_fr(f))
        if isinstance(x, Fr):
            return SV(c=x)
        if isinstance(x, z3.ExprRef):
            return SV(t=x, kind="B" if z3.is_bool(x) else "R")
        if isinstance(x, _np.ndarray) and x.ndim == 0:
            return SV.of(x.item())
        raise Unsupported(f"cannot lift {type(x).__name__} to SV")

    @property
    def concrete(self):
        return self.t is None

    def is_inf(self):
        return self.t is None and isinstance(self.c, float)

    def term(self):
        if self.t is not None:
            return self.t
        if self.kind == "B":
            return z3.BoolVal(self.c)
        if isinstance(self.c, float):
            raise Unsupported("infinite value used in arithmetic term")
        return rv(self.c)

    def __repr__(self):
        return f"SV({self.c if self.t is None else self.t})"

    # -- python protocol --------------------------------------------------------------
    def __bool__(self):
        if self.kind == "B":
            if self.t is None:
                return bool(self.c)
            return ctx().decide(self.t)
        if self.t is None:
            return self.c != 0
        return ctx().decide(self.t != 0)

    def __index__(self):
        if self.t is None and self.kind == "R" and not isinstance(self.c, float) and self.c.denominator == 1:
            return int(self.c)
        raise Unsupported("symbolic value used as index")

    def __int__(self):
        if self.t is None and not isinstance(self.c, float):
            return int(self.c)
        raise Unsupported("int() of symbolic value")

    def __float__(self):
        if self.t is None:
            return float(self.c)
        raise Unsupported("float() of symbolic value")

    def __hash__(self):
        return id(self)

    # -- arithmetic ---------------------------------------------------------------------
    def _bin(self, o, op):
        if not isinstance(o, SV):
            if isinstance(o, _np.ndarray) or type(o).__name__ == "SymArray":
                return NotImplemented
            try:
                o = SV.of(o)
            except Unsupported:
                return NotImplemented
        return op(self, o)

    def __add__(self, o):
        return self._bin(o, _add)

    def __radd__(self, o):
        return self._bin(o, lambda a, b: _add(b, a))

    def __sub__(self, o):
        return self._bin(o, lambda a, b: _add(a, _neg(b)))

    def __rsub__(self, o):
        return self._bin(o, lambda a, b: _add(b, _neg(a)))

    def __mul__(self, o):
        return self._bin(o, _mul)

    def __rmul__(self, o):
        return self._bin(o, lambda a, b: _mul(b, a))

    def __truediv__(self, o):
        return self._bin(o, _div)

    def __rtruediv__(self, o):
        return self._bin(o, lambda a, b: _div(b, a))

    def __neg__(self):
        return _neg(self)

    def __pos__(self):
        return self

    def __abs__(self):
        return sv_abs(self)

    def __pow__(self, o):
        return self._bin(o, _pow)

    def __rpow__(self, o):
        return self._bin(o, lambda a, b: _pow(b, a))

    def __mod__(self, o):
        return self._bin(o, _mod)

    def __floordiv__(self, o):
        raise Unsupported("floor division on symbolic value")

    # comparisons
    def __lt__(self, o):
        return self._bin(o, lambda a, b: _cmp(a, b, "<"))

    def __le__(self, o):
        return self._bin(o, lambda a, b: _cmp(a, b, "<="))

    def __gt__(self, o):
        return self._bin(o, lambda a, b: _cmp(b, a, "<"))

    def __ge__(self, o):
        return self._bin(o, lambda a, b: _cmp(b, a, "<="))

    def __eq__(self, o):  # noqa
        return self._bin(o, lambda a, b: _cmp(a, b, "=="))

    def __ne__(self, o):  # noqa
        return self._bin(o, lambda a, b: _not(_cmp(a, b, "==")))

    # boolean
    def __and__(self, o):
        return self._bin(o, _and)

    __rand__ = __and__

    def __or__(self, o):
        return self._bin(o, _or)

    __ror__ = __or__

    def __xor__(self, o):
        return self._bin(o, _xor)

    __rxor__ = __xor__

    def __invert__(self):
        return _not(self)

    # numpy-scalar-like attributes
    @property
    def shape(self):
        return ()

    @property
    def size(self):
        return 1

    @property
    def ndim(self):
        return 0

    @property
    def value(self):  # astropy-Quantity-like
        return self

    def item(self):
        return self

    def __getitem__(self, key):
        from .arr import SymArray, to_obj

        return SymArray(to_obj(self))[key]

    def astype(self, *_a, **_k):
        return self

    def copy(self):
        return self


def _isinf(a: SV):
    return a.t is None and isinstance(a.c, float)


def _add(a: SV, b: SV) -> SV:
    a, b = _n(a), _n(b)
    if _isinf(a) or _isinf(b):
        if _isinf(a) and _isinf(b) and a.c != b.c:
            raise Unsupported("inf - inf")
        return a if _isinf(a) else b
    if a.t is None and b.t is None:
        return SV(c=a.c + b.c, isint=a.isint and b.isint)
    if a.t is None and a.c == 0:
        return b
    if b.t is None and b.c == 0:
        return a
    r = SV(t=a.term() + b.term(), isint=a.isint and b.isint)
    # angle bookkeeping (radians only)
    if a.unit is None and b.unit is None:
        Aa, Ab = _angof(a), _angof(b)
        if Aa is not None and Ab is not None:
            r.A = Aa.plus(Ab)
    return r


def _angof(a: SV):
    if a.A is not None:
        return a.A
    if a.t is None and not isinstance(a.c, float) and a.c == 0:
        return Ang({}, Fr(0))
    if a.t is None and not isinstance(a.c, float) and a.kind == "R" and Ctx.current is not None and abs(a.c) <= 7:
        # a concrete angle (radians): a constant primitive with interval-enclosed sine and cosine
        p = _const_prim(a.c)
        return Ang({id(p): (p, Fr(1))}, Fr(0))
    return None


def _const_prim(c: Fr):
    C = ctx()
    key = ("constprim", c)
    if key not in C.consts:
        s, co = C.fresh("sinc", val=math.sin(float(c))), C.fresh("cosc", val=math.cos(float(c)))
        (sl, sh), (cl, ch) = enclosure("sin", c), enclosure("cos", c)
        C.fact(s * s + co * co == 1, s >= rv(sl), s <= rv(sh), co >= rv(cl), co <= rv(ch))
        C.consts[key] = new_prim(rv(c), s, co, "const")
        C.consts[("sc", c)] = (s, co)
    return C.consts[key]


def _neg(a: SV) -> SV:
    a = _n(a)
    if _isinf(a):
        return SV(c=-a.c)
    if a.t is None:
        return SV(c=-a.c, isint=a.isint)
    r = SV(t=-a.t, isint=a.isint)
    if a.A is not None:
        r.A = a.A.scaled(Fr(-1))
        r.unit = a.unit
        if a.rad is not None:
            r.rad = -a.rad
    return r


def _mul(a: SV, b: SV) -> SV:
    a, b = _n(a), _n(b)
    if _isinf(a) or _isinf(b):
        raise Unsupported("inf in product")
    if a.t is None and b.t is None:
        return SV(c=a.c * b.c, isint=a.isint and b.isint)
    if a.t is None:
        a, b = b, a
    # now a symbolic; b maybe concrete
    if b.t is None:
        if b.c == 0:
            return SV(c=Fr(0))
        if b.c == 1:
            return a
        r = SV(t=a.t * rv(b.c), isint=a.isint and b.isint)
        if a.A is not None:
            r.A = a.A.scaled(b.c)
            r.unit = a.unit
            if a.rad is not None:
                r.rad = a.rad * rv(b.c)
        if a.e10 is not None and False:
            pass
        return r
    return SV(t=a.t * b.t, isint=a.isint and b.isint)


def _div(a: SV, b: SV) -> SV:
    a, b = _n(a), _n(b)
    if _isinf(b):
        if _isinf(a):
            raise Unsupported("inf/inf")
        return SV(c=Fr(0))
    if _isinf(a):
        raise Unsupported("inf/x")
    if b.t is None:
        if b.c == 0:
            ctx().need("div", False)
            return SV(t=ctx().fresh("undef", val=float("nan")))
        return _mul(a, SV(c=Fr(1) / b.c))
    ctx().need("div", b.t != 0)
    if a.t is None and a.c == 0:
        return SV(c=Fr(0))
    return SV(t=a.term() / b.t)


def _n(x):
    """numpy semantics: a bool used in arithmetic is 0/1."""
    return bool_to_real(x) if x.kind == "B" else x


def bool_to_real(x: SV) -> SV:
    if x.kind != "B":
        return x
    if x.t is None:
        return SV(c=Fr(int(x.c)), isint=True)
    return SV(t=z3.If(x.t, z3.RealVal(1), z3.RealVal(0)), isint=True)


def _pow(a: SV, b: SV) -> SV:
    a, b = _n(a), _n(b)
    if b.t is None and not _isinf(b):
        e = b.c
        if e.denominator == 1:
            n = int(e)
            if n == 0:
                return SV(c=Fr(1))
            if a.t is None and not _isinf(a):
                if n < 0 and a.c == 0:
                    ctx().need("pow", False)
                    return SV(t=ctx().fresh("undef", val=float("nan")))
                return SV(c=a.c**n)
            if a.e10 is not None:
                return exp10(SV.of(a.e10) * SV(c=e))
            if abs(n) <= 8:
                t = a.t
                for _ in range(abs(n) - 1):
                    t = t * a.t
                r = SV(t=t)
                if n < 0:
                    return _div(SV(c=Fr(1)), r)
                return r
        if e == Fr(1, 2):
            return sv_sqrt(a)
    # 10 ** x
    if a.t is None and not _isinf(a) and a.c == 10:
        return exp10(b)
    if a.e10 is not None:
        return exp10(_mul(SV.of(a.e10), b))
    return uf_pow(a, b)


def _mod(a: SV, b: SV) -> SV:
    a, b = _n(a), _n(b)
    if a.t is None and b.t is None:
        return SV(c=a.c % b.c)
    if b.t is not None:
        raise Unsupported("mod by symbolic")
    C = ctx()
    k = C.fresh("modk", val=lambda: math.floor(C.ev(a.t) / float(b.c)))
    t = C.fresh("mod", val=lambda: C.ev(a.t) % float(b.c))
    m = rv(b.c)
    # integer quotient restricted to a small range (stated bound of the engine)
    C.fact(z3.Or(*[k == i for i in range(-3, 4)]), t == a.t - m * k, t >= 0, t < m)
    r = SV(t=t, A=a.A, unit=a.unit)
    if a.unit == "deg" and b.c == 360 and a.rad is not None:
        r.rad = a.rad - 2 * PI * k
    return r


def _cmp(a: SV, b: SV, op) -> SV:
    if a.kind == "B" or b.kind == "B":
        if op != "==":
            raise Unsupported("ordering of bools")
        if a.t is None and b.t is None:
            return SV(c=bool(a.c) == bool(b.c), kind="B")
        a2 = a if a.kind == "B" else _cmp(a, SV(c=Fr(0)), "==").__invert__()
        b2 = b if b.kind == "B" else _cmp(b, SV(c=Fr(0)), "==").__invert__()
        return SV(t=a2.term() == b2.term(), kind="B")
    if a.t is None and b.t is None:
        x, y = a.c, b.c
        return SV(c={"<": x < y, "<=": x <= y, "==": x == y}[op], kind="B")
    if _isinf(a) or _isinf(b):
        # comparison with +-inf is decided by sign of the infinity
        if _isinf(b):
            pos = b.c > 0
            return SV(c={"<": pos, "<=": pos, "==": False}[op], kind="B")
        pos = a.c > 0
        return SV(c={"<": not pos, "<=": not pos, "==": False}[op], kind="B")
    x, y = a.term(), b.term()
    note_angle_cmp(a, b)
    t = {"<": x < y, "<=": x <= y, "==": x == y}[op]
    return SV(t=t, kind="B")


def note_angle_cmp(a: SV, b: SV):
    """Remember which primitive angles were compared (monotonicity axioms are
    instantiated for these pairs at solve time)."""
    C = Ctx.current
    if C is None:
        return
    pa = _single_prim(a)
    pb = _single_prim(b)
    if pa is not None or pb is not None:
        C.mono_pairs.append((a, b))


def _single_prim(a: SV):
    if a.A is None:
        return None
    if len(a.A.lin) == 1:
        (p, c), = a.A.lin.values()
        return p
    return None


def _b(x: SV):
    if x.kind != "B":
        if x.t is None:
            return SV(c=(x.c != 0), kind="B")
        return SV(t=x.t != 0, kind="B")
    return x


def _and(a, b):
    a, b = _b(a), _b(b)
    if a.t is None:
        return b if a.c else SV(c=False, kind="B")
    if b.t is None:
        return a if b.c else SV(c=False, kind="B")
    return SV(t=z3.And(a.t, b.t), kind="B")


def _or(a, b):
    a, b = _b(a), _b(b)
    if a.t is None:
        return SV(c=True, kind="B") if a.c else b
    if b.t is None:
        return SV(c=True, kind="B") if b.c else a
    return SV(t=z3.Or(a.t, b.t), kind="B")


def _xor(a, b):
    a, b = _b(a), _b(b)
    if a.t is None:
        return _not(b) if a.c else b
    if b.t is None:
        return _not(a) if b.c else a
    return SV(t=z3.Xor(a.t, b.t), kind="B")


def _not(a):
    a = _b(a)
    if a.t is None:
        return SV(c=not a.c, kind="B")
    return SV(t=z3.Not(a.t), kind="B")


def sv_if(c: SV, a: SV, b: SV) -> SV:
    c = _b(SV.of(c))
    a, b = SV.of(a), SV.of(b)
    if c.t is None:
        return a if c.c else b
    if a.kind == "B" or b.kind == "B":
        a, b = _b(a), _b(b)
        return SV(t=z3.If(c.t, a.term(), b.term()), kind="B")
    if _isinf(a) or _isinf(b):
        raise Unsupported("inf in symbolic select")
    return SV(t=z3.If(c.t, a.term(), b.term()), isint=a.isint and b.isint)


def sv_abs(a: SV) -> SV:
    a = _n(a)
    if a.t is None:
        return SV(c=abs(a.c), isint=a.isint)
    return SV(t=z3.If(a.t >= 0, a.t, -a.t), isint=a.isint)


def sv_min(a: SV, b: SV) -> SV:
    a, b = SV.of(a), SV.of(b)
    if a.t is None and b.t is None:
        return a if a.c <= b.c else b
    note_angle_cmp(a, b)
    return SV(t=z3.If(a.term() <= b.term(), a.term(), b.term()))


def sv_max(a: SV, b: SV) -> SV:
    a, b = SV.of(a), SV.of(b)
    if a.t is None and b.t is None:
        return a if a.c >= b.c else b
    note_angle_cmp(a, b)
    return SV(t=z3.If(a.term() >= b.term(), a.term(), b.term()))


# ---------------------------------------------------------------------------------
# algebraic functions
# ---------------------------------------------------------------------------------
def _norm(t):
    return z3.simplify(t, som=True)


def _fr_sqrt(c: Fr):
    if c < 0:
        return None
    n, d = c.numerator, c.denominator
    rn, rd = math.isqrt(n), math.isqrt(d)
    if rn * rn == n and rd * rd == d:
        return Fr(rn, rd)
    return None


def sv_sqrt(a: SV, known_nonneg=False) -> SV:
    if Ctx.current is not None and Ctx.current.opaque_math:
        return _opaque("sqrt", a)
    a = SV.of(a)
    a = _n(a)
    C = ctx()
    if a.t is None:
        if _isinf(a):
            raise Unsupported("sqrt(inf)")
        if a.c < 0:
            C.need("sqrt", False)
            return SV(t=C.fresh("undef", val=float("nan")))
        e = _fr_sqrt(a.c)
        if e is not None:
            return SV(c=e)
    xn = _norm(a.term())  # normal form: cache key only; facts keep the code's own term (generalisation cuts substitute it)
    k = xn.get_id()
    hit = C.sqrt_cache.get(k)
    if hit is not None and hit[1].eq(xn):
        return SV(t=hit[0])
    x = a.term()
    y = C.fresh("sq", val=lambda: math.sqrt(C.ev(x)))
    if known_nonneg:  # radicand is a sum of squares by construction: no obligation
        C.fact(y >= 0, y * y == x)
    else:
        g = C.need("sqrt", x >= 0)
        C.fact(z3.Implies(g, z3.And(y >= 0, y * y == x)))
    C.sqrt_cache[k] = (y, xn)
    return SV(t=y)


def sv_cbrt(a: SV) -> SV:
    if Ctx.current is not None and Ctx.current.opaque_math:
        return _opaque("cbrt", a)
    a = SV.of(a)
    a = _n(a)
    C = ctx()
    if a.t is None:
        for s in (1, -1):
            n, d = abs(a.c.numerator), a.c.denominator
            rn, rd = round(n ** (1 / 3)), round(d ** (1 / 3))
            if rn**3 == n and rd**3 == d:
                return SV(c=Fr(rn, rd) * (1 if a.c >= 0 else -1))
    xn = _norm(a.term())
    k = xn.get_id()
    hit = C.cbrt_cache.get(k)
    if hit is not None and hit[1].eq(xn):
        return SV(t=hit[0])
    x = a.term()
    y = C.fresh("cb", val=lambda: _np.cbrt(C.ev(x)))
    C.fact(y * y * y == x)
    C.cbrt_cache[k] = (y, xn)
    return SV(t=y)


# ---------------------------------------------------------------------------------
# Ackermannised transcendental functions
# ---------------------------------------------------------------------------------
def _raw_fr(raw):
    sign, man, exp, _bc = raw
    v = Fr(int(man)) * (Fr(2) ** int(exp))
    return -v if sign else v


def enclosure(fn_name, *args_fr):
    """Rational enclosure [lo, hi] of a transcendental function at rational points."""
    if _iv is None:
        raise HarnessError("mpmath not available")
    xs = [_iv.mpf(a.numerator) / _iv.mpf(a.denominator) for a in args_fr]
    if fn_name == "exp":
        r = _iv.exp(xs[0])
    elif fn_name == "log":
        r = _iv.log(xs[0])
    elif fn_name == "sin":
        r = _iv.sin(xs[0])
    elif fn_name == "cos":
        r = _iv.cos(xs[0])
    elif fn_name == "exp10":
        r = _iv.exp(xs[0] * _iv.log(10))
    elif fn_name == "log10":
        r = _iv.log(xs[0]) / _iv.log(10)
    elif fn_name == "pow":
        r = _iv.exp(xs[1] * _iv.log(xs[0]))
    elif fn_name == "tan":
        r = _iv.tan(xs[0])
    else:
        raise HarnessError("no enclosure for " + fn_name)
    a, b = r._mpi_
    return _raw_fr(a), _raw_fr(b)


def _mpf_fr(x):
    """lower endpoint of an interval value as an exact rational (use with .a / .b endpoints)"""
    return _raw_fr(x._mpi_[0])


def _opaque(name, *xs):
    """Uninterpreted abstraction of a numeric primitive (same arguments -> same symbol)."""
    return SV(t=uf_apply("opq_" + name, [SV.of(x).term() if not (isinstance(x, SV) and x.kind == "B") else bool_to_real(x).term() for x in xs]))


_UF_FLOAT = {
    "opq_trunc": lambda x: float(math.trunc(x)),
    "exp": math.exp, "log": math.log, "exp10": lambda x: 10.0**x, "log10": math.log10, "pow": lambda x, y: x**y,
}


def uf_apply(fam, args, guard=None):
    """Ackermann: one fresh Real per distinct application (args are z3 terms)."""
    C = ctx()
    raw = tuple(args)
    args = tuple(_norm(a) for a in args)
    tab = C.uf.setdefault(fam, [])
    for ar, res, meta in tab:
        if all(x.eq(y) for x, y in zip(meta.get("norm", ar), args)):
            return res
    r = C.fresh(fam, val=(lambda: _UF_FLOAT[fam](*[C.ev(a) for a in args])) if fam in _UF_FLOAT else float("nan"))
    tab.append((raw if not all(z3.is_rational_value(a) for a in args) else args, r, {"norm": args}))
    # basic sign/range facts
    if fam in ("exp", "exp10"):
        C.fact(r > 0)
    if fam == "pow":
        C.fact(z3.Implies(args[0] > 0, r > 0))
    # numeric enclosure when every argument is a rational constant
    if all(z3.is_rational_value(a) for a in args):
        frs = [Fr(a.numerator_as_long(), a.denominator_as_long()) for a in args]
        ok = fam in _UF_FLOAT
        if fam in ("log", "log10") and frs[0] <= 0:
            ok = False
        if fam == "pow" and frs[0] <= 0:
            ok = False
        if ok:
            lo, hi = enclosure(fam, *frs)
            if lo == hi:
                C.fact(r == rv(lo))
            else:
                C.fact(r >= rv(lo), r <= rv(hi))
    return r


def sv_trunc(a):
    """int(x) / trunc(x) of a symbolic real: an Ackermannised application constrained to lie within one unit
    of x towards zero (integrality itself is not encoded -- a sound over-approximation: every behaviour of
    the real truncation is a behaviour of the abstraction)."""
    a = SV.of(a)
    if a.t is None:
        return SV(c=Fr(math.trunc(a.c)), isint=True)
    x = a.term()
    r = uf_apply("opq_trunc", [x])
    ctx().fact(z3.If(x >= 0, z3.And(r >= 0, r <= x, x < r + 1), z3.And(r <= 0, r >= x, x > r - 1)))
    return SV(t=r)


class _SymIntMeta(type):
    def __instancecheck__(cls, x):
        return isinstance(x, int)

    def __subclasscheck__(cls, c):
        return issubclass(c, int)

    def __call__(cls, x=0, *a):
        if isinstance(x, SV) and x.t is not None:
            return sv_trunc(x)
        if isinstance(x, SV):
            return int(x)
        return int(x, *a)


class sym_int(metaclass=_SymIntMeta):
    """drop-in for the builtin `int` inside a loaded module namespace: int(symbolic) stays symbolic"""


def _seed_family(fam):
    """exp(0)=1, log(1)=0 ... are registered lazily as ordinary applications."""
    C = ctx()
    key = "seeded_" + fam
    if key in C.consts:
        return
    C.consts[key] = True
    if fam == "exp":
        C.fact(uf_apply("exp", [z3.RealVal(0)]) == 1)
    if fam == "exp10":
        C.fact(uf_apply("exp10", [z3.RealVal(0)]) == 1)
    if fam == "log":
        C.fact(uf_apply("log", [z3.RealVal(1)]) == 0)
    if fam == "log10":
        C.fact(uf_apply("log10", [z3.RealVal(1)]) == 0)


def sv_exp(a):
    if Ctx.current is not None and Ctx.current.opaque_math:
        return _opaque("exp", a)
    a = SV.of(a)
    a = _n(a)
    if a.t is None and not _isinf(a) and a.c == 0:
        return SV(c=Fr(1))
    if _isinf(a):
        if a.c < 0:
            return SV(c=Fr(0))
        return a
    _seed_family("exp")
    return SV(t=uf_apply("exp", [a.term()]))


def sv_log(a):
    if Ctx.current is not None and Ctx.current.opaque_math:
        return _opaque("log", a)
    a = SV.of(a)
    a = _n(a)
    if a.t is None and a.c == 1:
        return SV(c=Fr(0))
    if a.t is None and a.c <= 0:
        ctx().need("log", False)
        return SV(t=ctx().fresh("undef", val=float("nan")))
    if a.t is not None:
        ctx().need("log", a.t > 0)
    _seed_family("log")
    return SV(t=uf_apply("log", [a.term()]))


def exp10(a):
    if Ctx.current is not None and Ctx.current.opaque_math:
        return _opaque("exp10", a)
    a = SV.of(a)
    a = _n(a)
    if a.t is None and not _isinf(a) and a.c.denominator == 1 and abs(a.c) <= 400:
        return SV(c=Fr(10) ** int(a.c))
    _seed_family("exp10")
    return SV(t=uf_apply("exp10", [a.term()]), e10=a.term())


def sv_log10(a):
    if Ctx.current is not None and Ctx.current.opaque_math:
        return _opaque("log10", a)
    a = SV.of(a)
    a = _n(a)
    if a.e10 is not None:
        return SV.of(a.e10)
    if a.t is None:
        if a.c <= 0:
            ctx().need("log", False)
            return SV(t=ctx().fresh("undef", val=float("nan")))
        # exact power of ten?
        n = round(math.log10(a.c))
        if Fr(10) ** n == a.c:
            return SV(c=Fr(n))
    else:
        ctx().need("log", a.t > 0)
    _seed_family("log10")
    return SV(t=uf_apply("log10", [a.term()]))


def uf_pow(a: SV, b: SV):
    if Ctx.current is not None and Ctx.current.opaque_math:
        return _opaque("pow", a, b)
    C = ctx()
    if a.t is None:
        if a.c < 0:
            raise Unsupported("negative base with non-integer exponent")
        if a.c == 0:
            return SV(c=Fr(0))
        if a.c == 1:
            return SV(c=Fr(1))
    else:
        C.need("pow-base", a.t > 0)
    return SV(t=uf_apply("pow", [a.term(), b.term()]))


# ---------------------------------------------------------------------------------
# trigonometry
# ---------------------------------------------------------------------------------
_SPECIAL = None


def _special(pic: Fr):
    """(sin, cos) of pic*pi for multiples of pi/2, pi/3, pi/4, pi/6 as z3 terms."""
    C = ctx()
    p = pic % 2
    tab = {
        Fr(0): (0, 1), Fr(1, 2): (1, 0), Fr(1): (0, -1), Fr(3, 2): (-1, 0),
    }
    if p in tab:
        s, c = tab[p]
        return z3.RealVal(s), z3.RealVal(c)

    def root(n):
        key = ("root", n)
        if key not in C.consts:
            r = C.named(f"sqrt{n}", math.sqrt(n))
            C.fact(r > 0, r * r == n)
            C.consts[key] = r
        return C.consts[key]

    h = z3.Q(1, 2)
    if p.denominator == 3:
        s3 = root(3) / 2
        return {
            Fr(1, 3): (s3, h), Fr(2, 3): (s3, -h), Fr(4, 3): (-s3, -h), Fr(5, 3): (-s3, h),
        }[p]
    if p.denominator == 6:
        s3 = root(3) / 2
        return {
            Fr(1, 6): (h, s3), Fr(5, 6): (h, -s3), Fr(7, 6): (-h, -s3), Fr(11, 6): (-h, s3),
        }[p]
    if p.denominator == 4:
        s2 = root(2) / 2
        return {
            Fr(1, 4): (s2, s2), Fr(3, 4): (s2, -s2), Fr(5, 4): (-s2, -s2), Fr(7, 4): (-s2, s2),
        }[p]
    # generic rational multiple of pi: fresh constants with enclosure
    key = ("picirc", p)
    if key not in C.consts:
        s = C.named(f"sinpi_{p.numerator}_{p.denominator}", math.sin(math.pi * float(p)))
        c = C.named(f"cospi_{p.numerator}_{p.denominator}", math.cos(math.pi * float(p)))
        x = _iv.pi * _iv.mpf(p.numerator) / _iv.mpf(p.denominator)
        si, ci = _iv.sin(x), _iv.cos(x)
        C.fact(s * s + c * c == 1, s >= rv(_raw_fr(si._mpi_[0])), s <= rv(_raw_fr(si._mpi_[1])), c >= rv(_raw_fr(ci._mpi_[0])), c <= rv(_raw_fr(ci._mpi_[1])))
        C.consts[key] = (s, c)
    return C.consts[key]


def new_prim(t, s, c, kind, name=""):
    C = ctx()
    p = Prim(t, s, c, kind, name)
    C.prims.append(p)
    return p


def free_angle(name, lo=None, hi=None) -> SV:
    """A symbolic input angle (radians) with its own point on the unit circle."""
    C = ctx()
    t = C.named(name)
    s = C.named(name + "_sin", lambda: math.sin(C.shadow[name]))
    c = C.named(name + "_cos", lambda: math.cos(C.shadow[name]))
    C.fact(s * s + c * c == 1)
    p = new_prim(t, s, c, "free", name)
    return SV(t=t, A=Ang({id(p): (p, Fr(1))}))


def _third(p: Prim):
    """(sin, cos) of p/3 for p in [0, pi] (arccos results)."""
    if p.third is None:
        if p.kind != "arccos":
            raise Unsupported("third of a non-arccos angle")
        C = ctx()
        c3 = C.fresh("c3", val=lambda: math.cos(math.acos(max(-1.0, min(1.0, C.ev(p.c)))) / 3))
        s3 = C.fresh("s3", val=lambda: math.sin(math.acos(max(-1.0, min(1.0, C.ev(p.c)))) / 3))
        C.fact(4 * c3 * c3 * c3 - 3 * c3 == p.c, c3 >= z3.Q(1, 2), c3 <= 1, s3 >= 0, s3 * s3 == 1 - c3 * c3,
               3 * s3 - 4 * s3 * s3 * s3 == p.s)
        p.third = (s3, c3)
    return p.third


def _half(p: Prim):
    if p.half is None:
        C = ctx()
        c2 = C.fresh("c2", val=lambda: math.cos(C.ev(p.t) / 2))
        s2 = C.fresh("s2", val=lambda: math.sin(C.ev(p.t) / 2))
        C.fact(2 * c2 * c2 - 1 == p.c, 2 * s2 * c2 == p.s, s2 * s2 + c2 * c2 == 1)
        if p.kind == "arccos":
            C.fact(c2 >= 0, s2 >= 0)
        elif p.kind in ("arcsin",):
            C.fact(c2 >= 0)
        else:
            raise Unsupported("half of unconstrained angle")
        p.half = (s2, c2)
    return p.half


def _mult(sc, n):
    """(sin, cos) of n*x from (sin, cos) of x, n >= 1 integer."""
    s, c = sc
    S, Cc = s, c
    for _ in range(n - 1):
        S, Cc = S * c + Cc * s, Cc * c - S * s
    return S, Cc


def sincos(a) -> tuple:
    """(sin, cos) as z3 terms of the SV a (radians)."""
    a = SV.of(a)
    C = ctx()
    if a.unit == "deg":
        raise Unsupported("sin/cos of a value in degrees")
    if a.t is None:
        if a.c == 0:
            return z3.RealVal(0), z3.RealVal(1)
        key = ("sc", a.c)
        if key not in C.consts:
            s, c = C.fresh("sinc", val=math.sin(float(a.c))), C.fresh("cosc", val=math.cos(float(a.c)))
            (sl, sh), (cl, ch) = enclosure("sin", a.c), enclosure("cos", a.c)
            C.fact(s * s + c * c == 1, s >= rv(sl), s <= rv(sh), c >= rv(cl), c <= rv(ch))
            p = new_prim(rv(a.c), s, c, "const")
            C.consts[key] = (s, c)
        return C.consts[key]
    if a.A is not None:
        S, Cc = z3.RealVal(0), z3.RealVal(1)
        first = True
        for _, (p, k) in a.A.lin.items():
            neg = k < 0
            k = abs(k)
            if k.denominator == 1:
                sp, cp = _mult((p.s, p.c), int(k))
            elif k == Fr(1, 3):
                sp, cp = _third(p)
            elif k == Fr(1, 2):
                sp, cp = _half(p)
            else:
                raise Unsupported(f"angle scale {k}")
            if neg:
                sp = -sp
            if first:
                S, Cc, first = sp, cp, False
            else:
                S, Cc = S * cp + Cc * sp, Cc * cp - S * sp
        if a.A.pic != 0:
            so, co = _special(a.A.pic)
            S, Cc = S * co + Cc * so, Cc * co - S * so
        elif len(a.A.lin) == 1 and abs(list(a.A.lin.values())[0][1]) == 1:
            return S, Cc  # a primitive angle itself: hand out its own terms (generalisation cuts match them syntactically)
        return z3.simplify(S), z3.simplify(Cc)
    # opaque symbolic angle: its own circle point, cached by term
    nt = _norm(a.t)
    k = nt.get_id()
    hit = C.circ.get(k)
    if hit is not None and hit[0].eq(nt):
        p = hit[1]
    else:
        s, c = C.fresh("s", val=lambda: math.sin(C.ev(nt))), C.fresh("c", val=lambda: math.cos(C.ev(nt)))
        C.fact(s * s + c * c == 1)
        p = new_prim(nt, s, c, "opaque")
        C.circ[k] = (nt, p)
    return p.s, p.c


def sv_sin(a):
    if Ctx.current is not None and Ctx.current.opaque_math:
        return _opaque("sin", a)
    a = SV.of(a)
    return SV(t=sincos(a)[0]) if not (a.t is None and a.c == 0) else SV(c=Fr(0))


def sv_cos(a):
    if Ctx.current is not None and Ctx.current.opaque_math:
        return _opaque("cos", a)
    a = SV.of(a)
    return SV(t=sincos(a)[1]) if not (a.t is None and a.c == 0) else SV(c=Fr(1))


def sv_tan(a):
    if Ctx.current is not None and Ctx.current.opaque_math:
        return _opaque("tan", a)
    s, c = sincos(a)
    ctx().need("tan", c != 0)
    return SV(t=s / c)


def sv_arcsin(x):
    if Ctx.current is not None and Ctx.current.opaque_math:
        return _opaque("arcsin", x)
    x = SV.of(x)
    x = _n(x)
    C = ctx()
    if x.t is None and x.c == 0:
        return SV(c=Fr(0))
    xn = _norm(x.term())
    key = ("asin", xn.get_id())
    hit = C.consts.get(key)
    xt = x.term()
    if hit is not None and hit[0].eq(xn):
        p = hit[1]
    else:
        g = C.need("arcsin", z3.And(xt >= -1, xt <= 1))
        cs = sv_sqrt(SV(t=1 - xt * xt)).term()
        th = C.fresh("asin", val=lambda: math.asin(C.ev(xt)))
        C.fact(z3.Implies(g, z3.And(th >= -PI / 2, th <= PI / 2)),
               z3.Implies(z3.And(g, xt >= 0), th >= 0), z3.Implies(z3.And(g, xt <= 0), th <= 0),
               z3.Implies(z3.And(g, xt > 0), th > 0), z3.Implies(z3.And(g, xt < 0), th < 0),
               z3.Implies(z3.And(g, xt < 1), th < PI / 2), z3.Implies(z3.And(g, xt > -1), th > -PI / 2))
        p = new_prim(th, xt, cs, "arcsin")
        C.consts[key] = (xn, p)
    return SV(t=p.t, A=Ang({id(p): (p, Fr(1))}))


def sv_arccos(x):
    if Ctx.current is not None and Ctx.current.opaque_math:
        return _opaque("arccos", x)
    x = SV.of(x)
    x = _n(x)
    C = ctx()
    if x.t is None and x.c == 1:
        return SV(c=Fr(0))
    xn = _norm(x.term())
    key = ("acos", xn.get_id())
    hit = C.consts.get(key)
    xt = x.term()
    if hit is not None and hit[0].eq(xn):
        p = hit[1]
    else:
        g = C.need("arccos", z3.And(xt >= -1, xt <= 1))
        sn = sv_sqrt(SV(t=1 - xt * xt)).term()
        th = C.fresh("acos", val=lambda: math.acos(C.ev(xt)))
        C.fact(z3.Implies(g, z3.And(th >= 0, th <= PI)),
               z3.Implies(z3.And(g, xt > 0), th < PI / 2), z3.Implies(z3.And(g, xt < 0), th > PI / 2),
               z3.Implies(z3.And(g, xt == 0), th == PI / 2),
               z3.Implies(z3.And(g, xt < 1), th > 0), z3.Implies(z3.And(g, xt > -1), th < PI),
               z3.Implies(z3.And(g, xt == 1), th == 0), z3.Implies(z3.And(g, xt == -1), th == PI))
        p = new_prim(th, sn, xt, "arccos")
        C.consts[key] = (xn, p)
    return SV(t=p.t, A=Ang({id(p): (p, Fr(1))}))


def sv_arctan2(y, x):
    if Ctx.current is not None and Ctx.current.opaque_math:
        return _opaque("arctan2", y, x)
    y, x = SV.of(y), SV.of(x)
    y, x = _n(y), _n(x)
    C = ctx()
    yn, xn = _norm(y.term()), _norm(x.term())
    key = ("atan2", yn.get_id(), xn.get_id())
    hit = C.consts.get(key)
    yt, xt = y.term(), x.term()
    if hit is not None and hit[0].eq(yn) and hit[1].eq(xn):
        p = hit[2]
    else:
        h = _sqrt_nonneg(SV(t=xt * xt + yt * yt)).term()
        g = C.need("atan2-origin", h != 0)
        th = C.fresh("atan2", val=lambda: math.atan2(C.ev(yt), C.ev(xt)))
        s = C.fresh("at2s", val=lambda: math.sin(math.atan2(C.ev(yt), C.ev(xt))))
        c = C.fresh("at2c", val=lambda: math.cos(math.atan2(C.ev(yt), C.ev(xt))))
        C.fact(z3.Implies(g, z3.And(s * h == yt, c * h == xt, s * s + c * c == 1)),
               th > -PI, th <= PI,
               z3.Implies(yt > 0, z3.And(th > 0, th < PI)), z3.Implies(yt < 0, z3.And(th < 0, th > -PI)),
               z3.Implies(z3.And(yt == 0, xt > 0), th == 0), z3.Implies(z3.And(yt == 0, xt < 0), th == PI),
               z3.Implies(xt > 0, z3.And(th > -PI / 2, th < PI / 2)),
               z3.Implies(z3.And(xt < 0, yt >= 0), th > PI / 2), z3.Implies(z3.And(xt < 0, yt < 0), th < -PI / 2),
               z3.Implies(z3.And(xt == 0, yt > 0), th == PI / 2), z3.Implies(z3.And(xt == 0, yt < 0), th == -PI / 2))
        p = new_prim(th, s, c, "arctan2")
        C.consts[key] = (yn, xn, p, yt, xt)
    return SV(t=p.t, A=Ang({id(p): (p, Fr(1))}))


def atan2_args(angle):
    """(y, x) terms of the arctan2 application that produced this angle (None if it is not one)."""
    t = SV.of(angle).term()
    entries = [v for k, v in ctx().consts.items() if isinstance(k, tuple) and k and k[0] == "atan2" and len(v) >= 5]
    # the angle itself, or the single arctan2 primitive it is built from (e.g. wrapped by a multiple of 2 pi)
    st, seen, hits = [t], set(), []
    while st:
        x = st.pop()
        if x.get_id() in seen:
            continue
        seen.add(x.get_id())
        for v in entries:
            if v[2].t.eq(x):
                hits.append(v)
        st.extend(x.children())
    if len(hits) == 1:
        return hits[0][3], hits[0][4]
    return None


def _sqrt_nonneg(a):
    f = globals()["sv_sqrt"]
    f = getattr(f, "__wrapped__", f)
    return f(a, True)


def sv_arctan(x):
    x = SV.of(x)
    return sv_arctan2(x, SV(c=Fr(1)))


def sv_degrees(x):
    x = SV.of(x)
    x = _n(x)
    if x.t is None and x.c == 0:
        return x
    return SV(t=x.term() * 180 / PI, A=x.A, unit="deg", rad=x.term())


def sv_radians(x):
    x = SV.of(x)
    x = _n(x)
    if x.unit == "deg" and x.rad is not None:
        return SV(t=x.rad, A=x.A)
    if x.t is None:
        if x.c == 0:
            return x
        k = x.c / 180
        return SV(t=PI * rv(k), A=Ang({}, k))
    return SV(t=x.t * PI / 180)


def pi_sv():
    return SV(t=PI, A=Ang({}, Fr(1)))


# ---------------------------------------------------------------------------------
# EUF shadow: every arithmetic primitive also builds an uninterpreted application over its
# operands' shadow terms (constants are NOT folded). Two computations with identical shadow
# terms perform the same operations on the same operands in the same order, hence agree
# bit for bit under every interpretation of the primitives, IEEE included.
# ---------------------------------------------------------------------------------
_EUF_FUNS = {}


def _euf_fun(name, sorts, rsort):
    k = (name, tuple(str(s) for s in sorts), str(rsort))
    if k not in _EUF_FUNS:
        _EUF_FUNS[k] = z3.Function("euf_" + name, *sorts, rsort)
    return _EUF_FUNS[k]


def eterm(x):
    x = SV.of(x)
    if x.e is not None:
        return x.e
    if x.t is None and isinstance(x.c, float):
        return z3.Real("euf_inf_pos" if x.c > 0 else "euf_inf_neg")
    return x.term()


def _euf(name):
    def deco(f):
        def g(*args):
            r = f(*args)
            C = Ctx.current
            if C is not None and C.euf and isinstance(r, SV):
                es, tag = [], name
                for a in args:
                    if isinstance(a, str):
                        tag = tag + "_" + {"<": "lt", "<=": "le", "==": "eq"}.get(a, a)
                    else:
                        es.append(eterm(a))
                rs = z3.BoolSort() if r.kind == "B" else z3.RealSort()
                fn = _euf_fun(tag, [e.sort() for e in es], rs)
                r2 = SV(t=r.t, c=r.c, kind=r.kind, A=r.A, unit=r.unit, rad=r.rad, e10=r.e10, isint=r.isint)
                r2.e = fn(*es)
                return r2
            return r

        g.__name__ = getattr(f, "__name__", name)
        g.__wrapped__ = f
        return g

    return deco


for _fname in ("_add", "_neg", "_mul", "_div", "_pow", "_mod", "_cmp", "_and", "_or", "_xor", "_not", "sv_if", "sv_abs", "sv_min", "sv_max", "sv_sqrt",
           "sv_cbrt", "sv_exp", "sv_log", "exp10", "sv_log10", "uf_pow", "sv_sin", "sv_cos", "sv_tan", "sv_arcsin", "sv_arccos", "sv_arctan2",
           "sv_arctan", "sv_degrees", "sv_radians", "bool_to_real"):
    globals()[_fname] = _euf(_fname.lstrip("_").replace("sv_", ""))(globals()[_fname])
