"""astropy.units.Quantity stub for symbolic values.

A quantity is (value SV, astropy unit). Unit algebra is astropy's own: conversion factors
and equivalence are queried from the real astropy at run time; only the numeric value is
symbolic. str(q) returns a SymStr that remembers (value, unit): parsing that text back is
the exact inverse (Python float repr round-trips), which is part of the claim."""
from __future__ import annotations

from fractions import Fraction as Fr

import astropy.units as u
from astropy.units import Quantity as RealQuantity

from . import core
from .core import SV


class SymStr(str):
    """Text of a quantity / number whose numeric payload is symbolic."""

    def __new__(cls, text, value, unit):
        o = super().__new__(cls, text)
        o.value, o.unit = value, unit
        return o


def _is_sym(x):
    return isinstance(x, SV) and x.t is not None


class Quantity:
    calls = []
    relerr = False  # RELERR mode: every conversion multiply is fl(a*b) = a*b*(1+d), |d| <= 2^-53
    ndelta = [0]

    def __init__(self, value, unit=None, **k):
        if isinstance(value, Quantity):
            self.value, self.unit = value.value, value.unit
            if unit is not None:
                q = value.to(unit)
                self.value, self.unit = q.value, q.unit
        elif isinstance(value, SymStr):
            self.value, self.unit = value.value, value.unit
            if unit is not None:
                q = Quantity(self.value, self.unit).to(unit)
                self.value, self.unit = q.value, q.unit
        elif isinstance(value, str):
            rq = RealQuantity(value) if unit is None else RealQuantity(value, unit)
            self.value, self.unit = SV.of(float(rq.value)), rq.unit
        elif isinstance(value, RealQuantity):
            rq = value if unit is None else value.to(unit)
            self.value, self.unit = SV.of(float(rq.value)), rq.unit
        else:
            self.value = SV.of(value)
            self.unit = u.dimensionless_unscaled if unit is None else u.Unit(unit)

    def to(self, unit, equivalencies=None):
        unit = u.Unit(unit)
        if not self.unit.is_equivalent(unit):
            if equivalencies and self.unit.is_equivalent(unit, equivalencies=equivalencies):
                # converted only by virtue of the equivalencies handed over (e.g. a wavelength taken as a frequency): astropy
                # accepts it, the conversion is not a constant factor -> an uninterpreted value, and no error is raised
                return Quantity(core._opaque(f"equiv_{self.unit}_to_{unit}".replace(" ", ""), self.value), unit)
            raise u.UnitConversionError(f"'{self.unit}' and '{unit}' are not convertible")
        try:
            f = self.unit.to(unit)  # astropy's own factor (a double)
        except u.UnitConversionError:
            raise
        if self.unit == unit:
            return Quantity(self.value, unit)
        v = self.value * SV.of(float(f))
        if Quantity.relerr and v.t is not None:
            import z3

            Quantity.ndelta[0] += 1
            d = z3.Real(f"fl_delta{Quantity.ndelta[0]}")
            core.ctx().assume(d >= -core.rv(Fr(1, 2**53)), d <= core.rv(Fr(1, 2**53)))
            v = v * (SV(c=Fr(1)) + SV(t=d))
        return Quantity(v, unit)

    def __str__(self):
        if _is_sym(self.value):
            return SymStr(f"<{self.value.t}> {self.unit}", self.value, self.unit)
        return str(RealQuantity(float(self.value.c), self.unit))

    __repr__ = __str__

    def __mul__(self, o):
        if isinstance(o, (u.UnitBase,)):
            return Quantity(self.value, self.unit * o)
        return Quantity(self.value * SV.of(o), self.unit)
