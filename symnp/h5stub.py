"""In-memory model of the part of h5py that nuspacesim's grid I/O uses (documented semantics):
File(name, mode) with modes r / r+ / w / w- (x) / a as a context manager, groups with
create_group / require_group / create_dataset / require_dataset / __contains__ / __getitem__
(nested paths, "/" is the group itself) / __delitem__, attribute dictionaries, datasets read
with ds[()].  Stored arrays are copied on write and on read (a file does not alias memory)."""
from __future__ import annotations

import types

STORE = {}  # file name -> root Group ("the disk")


def reset():
    STORE.clear()


def _copy(x):
    return x.copy() if hasattr(x, "copy") else x


class Dataset:
    def __init__(self, data, shape=None, dtype=None):
        self.data = _copy(data)
        self.shape = tuple(shape) if shape is not None else tuple(getattr(data, "shape", ()))
        self.dtype = dtype if dtype is not None else getattr(data, "dtype", None)

    def __getitem__(self, k):
        if k == () or k is Ellipsis:
            return _copy(self.data)
        return _copy(self.data[k])

    def __setitem__(self, k, v):
        if k == () or k is Ellipsis:
            self.data = _copy(v)
        else:
            self.data[k] = v


class Group:
    def __init__(self):
        self.children = {}
        self.attrs = {}

    def _walk(self, path, create=False):
        g = self
        parts = [p for p in path.split("/") if p]
        for p in parts[:-1]:
            if p not in g.children:
                if not create:
                    raise KeyError(f"Unable to open object (component not found: {p})")
                g.children[p] = Group()
            g = g.children[p]
            if not isinstance(g, Group):
                raise KeyError("not a group")
        return g, (parts[-1] if parts else None)

    def __contains__(self, path):
        if path in ("/", ""):
            return True
        try:
            g, last = self._walk(path)
        except KeyError:
            return False
        return last in g.children

    def __getitem__(self, path):
        if path in ("/", ""):
            return self
        g, last = self._walk(path)
        if last not in g.children:
            raise KeyError(f"Unable to open object (object '{last}' doesn't exist)")
        return g.children[last]

    def __delitem__(self, path):
        g, last = self._walk(path)
        if last not in g.children:
            raise KeyError(f"Couldn't delete link (name doesn't exist: {last})")
        del g.children[last]

    def keys(self):
        return self.children.keys()

    def create_group(self, path):
        if path in ("/", ""):
            raise ValueError("Unable to create group (name already exists)")
        g, last = self._walk(path, create=True)
        if last in g.children:
            raise ValueError("Unable to create group (name already exists)")
        g.children[last] = Group()
        return g.children[last]

    def require_group(self, path):
        if path in self:
            g = self[path]
            if not isinstance(g, Group):
                raise TypeError("Incompatible object (Dataset) already exists")
            return g
        return self.create_group(path)

    def create_dataset(self, name, shape=None, dtype=None, data=None, **kw):
        g, last = self._walk(name, create=True)
        if last in g.children:
            raise ValueError("Unable to create dataset (name already exists)")
        if data is not None and shape is not None and tuple(shape) != tuple(getattr(data, "shape", ())):
            raise ValueError("Shape tuple is incompatible with data")
        g.children[last] = Dataset(data, shape, dtype)
        return g.children[last]

    def require_dataset(self, name, shape, dtype, exact=False, data=None, **kw):
        if name in self:
            d = self[name]
            if not isinstance(d, Dataset):
                raise TypeError("Incompatible object (Group) already exists")
            if tuple(shape) != tuple(d.shape):
                raise TypeError(f"Shapes do not match (existing {d.shape} vs new {tuple(shape)})")
            return d  # existing dataset is returned untouched; `data` is only used on creation
        return self.create_dataset(name, shape=shape, dtype=dtype, data=data, **kw)


class File(Group):
    def __new__(cls, name, mode="r", **kw):
        name = str(name)
        if mode == "r" or mode == "r+":
            if name not in STORE:
                raise FileNotFoundError(f"Unable to open file (unable to open file: name = '{name}')")
            root = STORE[name]
        elif mode in ("w-", "x"):
            if name in STORE:
                raise FileExistsError(f"Unable to create file (unable to open file: name = '{name}', file exists)")
            root = STORE[name] = Group()
        elif mode == "w":
            root = STORE[name] = Group()
        elif mode == "a":
            root = STORE.setdefault(name, Group())
        else:
            raise ValueError("Invalid mode; must be one of r, r+, w, w-, x, a")
        h = object.__new__(_Handle)
        h.root, h.mode = root, mode
        return h


class _Handle:
    """open file handle: context manager delegating to the root group"""

    def __enter__(self):
        return self

    def __exit__(self, *a):
        return False

    def close(self):
        pass

    def __getattr__(self, k):
        return getattr(self.root, k)

    def __contains__(self, p):
        return p in self.root

    def __getitem__(self, p):
        return self.root[p]

    def __delitem__(self, p):
        del self.root[p]


def module():
    m = types.ModuleType("h5py")
    m.File, m.Group, m.Dataset = File, Group, Dataset
    return m
