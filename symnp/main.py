"""./check <ID> [--tier quick|thorough] [--replay file]  -- driver.

exit 0: property held on everything explored (known findings are printed, not alarms)
exit 1: VIOLATION property=<id> replay=<path>  (reproduced on the real code, not a known finding)
exit 2: harness error / too many undecided obligations (nothing is claimed)
"""
from __future__ import annotations

import argparse
import hashlib
import importlib
import json
import multiprocessing as mp
import os
import sys
import time
import traceback

VERIF = os.path.dirname(os.path.dirname(os.path.abspath(__file__)))


def _worker(arg):
    modname, fname, kwargs = arg
    try:
        import resource

        resource.setrlimit(resource.RLIMIT_CORE, (0, 0))
    except Exception:
        pass
    m = importlib.import_module(modname)
    try:
        return getattr(m, fname)(**kwargs)
    except BaseException as e:  # noqa
        return {"job": f"{fname}{kwargs}", "error": f"{type(e).__name__}: {e}\n{traceback.format_exc()}", "verdicts": [],
                "paths": 0, "queries": 0, "solver_time": 0.0}


def load_findings():
    p = os.path.join(VERIF, "known_findings.json")
    if not os.path.exists(p):
        return []
    with open(p) as f:
        return json.load(f).get("findings", [])


def main(argv=None):
    ap = argparse.ArgumentParser()
    ap.add_argument("pid")
    ap.add_argument("--tier", default=os.environ.get("VERIF_TIER", "quick"), choices=["quick", "thorough"])
    ap.add_argument("--replay", default=None)
    ap.add_argument("--jobs", default=None, help="comma-separated substrings: run only matching jobs (debug)")
    ap.add_argument("--procs", type=int, default=int(os.environ.get("VERIF_PROCS", "16")))
    a = ap.parse_args(argv)
    pid = a.pid.upper()
    seed = int(os.environ.get("VERIF_SEED", "0") or 0)
    modname = f"props.{pid.lower()}"
    try:
        P = importlib.import_module(modname)
    except ModuleNotFoundError:
        print(f"no check for {pid}")
        return 2

    if a.replay:
        with open(a.replay) as f:
            rp = json.load(f)
        import contextlib
        import io

        buf = io.StringIO()
        with contextlib.redirect_stdout(buf), contextlib.redirect_stderr(io.StringIO()):
            try:
                r = P.replay(rp["verdict"])
            except BaseException as e:  # noqa
                r = {"reproduced": False, "key": None, "detail": f"replay crashed: {type(e).__name__}: {e}"}
        print(json.dumps(r, indent=1, default=str))
        return 1 if r.get("reproduced") else 0

    t0 = time.time()
    joblist = P.jobs(a.tier, seed)
    if a.jobs:
        keys = a.jobs.split(",")
        joblist = [j for j in joblist if any(k in j[0] for k in keys)]
    args = [(modname, fn, kw) for (_n, fn, kw) in joblist]
    if a.procs <= 1 or not args:
        results = [_worker(x) for x in args]
    else:
        # one deadline for the whole batch of jobs: a job that does not come back (a changed implementation can make the
        # exploration or a solver call run away, a killed worker never answers) is reported as a harness error, never waited for
        limit = float(os.environ.get("VERIF_JOB_LIMIT_S", "1500" if a.tier == "quick" else "5400"))
        pool = mp.get_context("fork").Pool(min(a.procs, len(args)))
        try:
            handles = [pool.apply_async(_worker, (x,)) for x in args]
            results = []
            for x, h in zip(args, handles):
                try:
                    results.append(h.get(timeout=max(1.0, t0 + limit - time.time())))
                except mp.TimeoutError:
                    results.append({"job": f"{x[1]}{x[2]}", "error": f"HarnessError: job did not finish within {limit:.0f} s of the start of the check", "verdicts": [],
                                    "paths": 0, "queries": 0, "solver_time": 0.0})
        finally:
            pool.terminate()
            pool.join()

    errors = [r for r in results if r.get("error")]
    verdicts = [dict(v, job=r["job"]) for r in results for v in r.get("verdicts", [])]
    counted = [v for v in verdicts if v["kind"] != "twin"]
    n_unsat = sum(1 for v in counted if v["verdict"] == "unsat")
    sat = [v for v in counted if v["verdict"] == "sat"]
    unknown = [v for v in counted if v["verdict"] not in ("sat", "unsat")]
    twins_bad = [v for v in verdicts if v["kind"] == "twin" and v["verdict"] == "unsat"]
    disagreements = [v for v in verdicts if v.get("second_solver") in ("sat", "unsat") and v["second_solver"] != v["verdict"]]
    second_errors = [v for v in verdicts if v.get("second_solver") == "error"]

    # translator validation against the real implementation
    validated = 0
    val_error = None
    if hasattr(P, "validate") and not a.jobs:
        try:
            vr = P.validate(seed, a.tier)
            if isinstance(vr, tuple):
                validated = int(vr[0])
                vjob = getattr(P, "VALIDATE_JOB", "validation")
                seen_c = set()
                for f in vr[1]:
                    if f["obligation"] in seen_c:
                        continue
                    seen_c.add(f["obligation"])
                    f = dict(f, job=vjob)
                    verdicts.append(f)
                    counted.append(f)
                    sat.append(f)
            else:
                validated = int(vr)
        except BaseException as e:  # noqa
            val_error = f"{type(e).__name__}: {e}\n{traceback.format_exc()}"

    # counterexamples: replay on the real code, then known-findings lookup
    findings = [f for f in load_findings() if f.get("property") == pid]
    open_keys = {f["key"]: f for f in findings if f.get("status") == "open"}
    violations, known_hit, not_reproduced = [], {}, []
    seen_keys = set()
    import re as _re
    import subprocess
    import tempfile

    def _group(v):
        return (v.get("job", ""), _re.sub(r"\[p\d+\]", "[p]", v["obligation"]))

    replayed = {}
    for v in sat:
        gk = _group(v)
        if gk in replayed:
            r = dict(replayed[gk])
        else:
            # every replay runs in a fresh interpreter: no state left behind by the harness, the
            # validation runs or an earlier replay can influence it
            try:
                with tempfile.NamedTemporaryFile("w", suffix=".json", delete=False) as tf:
                    json.dump({"property": pid, "verdict": v}, tf, default=str)
                env = dict(os.environ)
                pr = subprocess.run([sys.executable, "-W", "ignore", "-m", "symnp.main", pid, "--replay", tf.name], capture_output=True, text=True, timeout=900, env=env, cwd=VERIF)
                os.unlink(tf.name)
                txt = pr.stdout
                r = json.loads(txt[txt.index("{"):txt.rindex("}") + 1]) if "{" in txt else {"reproduced": False, "key": None, "detail": "replay produced no result: " + pr.stderr[-300:]}
            except BaseException as e:  # noqa
                r = {"reproduced": False, "key": None, "detail": f"replay crashed: {type(e).__name__}: {e}"}
            replayed[gk] = r
        v["replay"] = r
        if r.get("reproduced"):
            key = r.get("key") or v["obligation"]
            if key in open_keys:
                known_hit[key] = open_keys[key]
            elif key not in seen_keys:
                seen_keys.add(key)
                violations.append((key, v))
        else:
            not_reproduced.append(v)
    # extra known findings that a harness reports directly (events etc.)
    undecided = unknown + not_reproduced
    decided = n_unsat + len(sat) - len(not_reproduced)
    # auxiliary claims about implementation internals (present only while the implementation keeps the local
    # names they read) must be decided when present but do not count towards the ledger
    n_aux = sum(1 for v in counted if v.get("kind") == "aux" and v["verdict"] in ("sat", "unsat"))
    decided_core = decided - n_aux

    ledger = getattr(P, "LEDGER", {}).get(a.tier, 0)
    status = 0
    out_lines = []
    for k, f in known_hit.items():
        out_lines.append(f"KNOWN-FINDING: property={pid} {k}: {f.get('what','')}")
    os.makedirs(os.path.join(VERIF, "replays"), exist_ok=True)
    for key, v in violations:
        h = hashlib.sha1((key + json.dumps(v.get("model"), sort_keys=True, default=str)).encode()).hexdigest()[:10]
        path = os.path.join(VERIF, "replays", f"{pid}_{h}.json")
        with open(path, "w") as f:
            json.dump({"property": pid, "key": key, "verdict": v}, f, indent=1, default=str)
        out_lines.append(f"VIOLATION property={pid} replay={path}")
        out_lines.append(f"  what: {key}: {v['replay'].get('detail','')}")
        status = 1
    for v in undecided[:40]:
        out_lines.append(f"INCONCLUSIVE {v['obligation']} ({v['verdict']}{'; counterexample did not reproduce' if v in not_reproduced else ''})")
    harness_err = []
    if errors:
        harness_err += [f"job error: {e['job']}: {e['error']}" for e in errors]
    if twins_bad:
        harness_err += [f"vacuity twin failed (unsat): {v['obligation']}" for v in twins_bad]
    if disagreements:
        harness_err += [f"solver disagreement on {v['obligation']}: {v['verdict']} vs {v['second_solver']}" for v in disagreements]
    if second_errors:
        harness_err += [f"second solver reported (error on {v['obligation']}" for v in second_errors]
    if val_error:
        harness_err.append("translator validation failed: " + val_error)
    if decided_core < ledger:
        harness_err.append(f"only {decided_core} obligations decided, ledger requires {ledger}")
    allow = getattr(P, "ALLOW_UNDECIDED", 0)
    if len(undecided) > allow and not a.jobs:
        harness_err.append(f"{len(undecided)} obligation(s) undecided (unknown, or a counterexample that did not reproduce on the real code); "
                           f"on the unchanged tree every obligation is decided, so nothing is claimed for this tree")
    if harness_err and status == 0:
        status = 2

    wall = time.time() - t0
    meta = getattr(P, "META", {})
    sha = {}
    funcs = set()
    for r in results:
        sha.update(r.get("sha", {}))
        funcs.update(r.get("functions", []))
    samples = [{k: v[k] for k in ("job", "obligation", "verdict", "time_s", "kind", "second_solver") if k in v} for v in verdicts]
    second_stats = {}
    for v in verdicts:
        if "second_solver" in v:
            second_stats[v["second_solver"]] = second_stats.get(v["second_solver"], 0) + 1
    max_samples = 400
    ev = {
        "property_id": pid,
        "tier": a.tier,
        "seed": seed,
        "level": "model_checking",
        "coverage": {
            "states": max(1, sum(r.get("paths", 0) for r in results)),
            "transitions": max(1, sum(r.get("queries", 0) for r in results)),
            "traces_validated_against_impl": validated,
            "samples": samples[:max_samples],
            "samples_truncated": len(samples) > max_samples,
            "second_solver_verdicts": second_stats,
            "obligations": len(counted),
            "obligations_unsat": n_unsat,
            "obligations_sat_reproduced": len(sat) - len(not_reproduced),
            "obligations_undecided": len(undecided),
            "undecided": [v["obligation"] for v in undecided][:100],
            "ledger_min_decided": ledger,
            "paths_infeasible_pruned": sum(r.get("paths_infeasible", 0) for r in results),
            "paths_feasibility_unknown": sum(r.get("paths_feas_unknown", 0) for r in results),
            "solver_time_s": round(sum(r.get("solver_time", 0.0) for r in results), 3),
            "solver": "z3 %s tactic qfnra-nlsat" % __import__("z3").get_version_string() + ("; second opinion /usr/bin/z3 4.8.12" if a.tier == "thorough" else ""),
            "functions_encoded": sorted(funcs),
            "source_sha256": sha,
            "bounds": meta.get("bounds", {}).get(a.tier, meta.get("bounds")),
            "outside_bounds": meta.get("outside_bounds", []),
            "stubs": meta.get("stubs", []),
            "skipped_definedness": [s for r in results for s in r.get("skipped_definedness", [])][:50],
            "known_findings_hit": sorted(known_hit),
            "harness_errors": harness_err[:20],
            "jobs": [{"job": r["job"], "paths": r.get("paths"), "queries": r.get("queries"), "wall_s": r.get("wall_s")} for r in results],
            "exhaustive": False,
        },
        "assumptions": meta.get("assumptions", []),
        "wall_s": round(wall, 3),
        "violations": len(violations),
    }
    evdir = os.environ.get("VERIF_EVIDENCE_DIR") or os.path.join(VERIF, "evidence")  # override only for experiments on scratch worktrees
    os.makedirs(evdir, exist_ok=True)
    with open(os.path.join(evdir, f"{pid}.json"), "w") as f:
        json.dump(ev, f, indent=1, default=str)

    print(f"[{pid}] tier={a.tier} jobs={len(results)} paths={ev['coverage']['states']} queries={ev['coverage']['transitions']} "
          f"obligations={len(counted)} unsat={n_unsat} sat={len(sat)} undecided={len(undecided)} validated={validated} wall={wall:.1f}s")
    for l in out_lines:
        print(l)
    for l in harness_err[:20]:
        print("HARNESS-ERROR " + l[:2000])
    return status


if __name__ == "__main__":
    sys.exit(main())
