"""Translator validation (Serval-style): run the encoding at a concrete point.

With `Ctx.shadow` set (variable name -> float), every fresh variable of the encoding gets
its concrete value, every decision follows the concrete point, every fact / axiom added
to the context is checked numerically, and the output terms are evaluated numerically so
that they can be compared with what the unpatched module computes with real NumPy."""
from __future__ import annotations

import math

import z3

K = z3


class EvalError(Exception):
    pass


def numeval(t, shadow, memo=None):
    """Evaluate a z3 Real/Bool term under float values of its variables."""
    if memo is None:
        memo = {}
    key = t.get_id()
    if key in memo:
        return memo[key]
    r = _ev(t, shadow, memo)
    memo[key] = r
    return r


def _ev(t, sh, memo):
    if z3.is_rational_value(t):
        return t.numerator_as_long() / t.denominator_as_long()
    if z3.is_int_value(t):
        return float(t.as_long())
    if z3.is_true(t):
        return True
    if z3.is_false(t):
        return False
    if z3.is_algebraic_value(t):
        a = t.approx(20)
        return a.numerator_as_long() / a.denominator_as_long()
    d = t.decl()
    k = d.kind()
    ch = t.children()
    if k == z3.Z3_OP_UNINTERPRETED and not ch:
        n = d.name()
        if n not in sh:
            raise EvalError(f"no shadow value for {n}")
        return sh[n]
    ev = lambda x: numeval(x, sh, memo)  # noqa
    if k == z3.Z3_OP_ADD:
        return math.fsum(ev(c) for c in ch)
    if k == z3.Z3_OP_SUB:
        r = ev(ch[0])
        for c in ch[1:]:
            r -= ev(c)
        return r
    if k == z3.Z3_OP_UMINUS:
        return -ev(ch[0])
    if k == z3.Z3_OP_MUL:
        r = 1.0
        for c in ch:
            r *= ev(c)
        return r
    if k == z3.Z3_OP_DIV:
        a, b = ev(ch[0]), ev(ch[1])
        if b == 0:
            return float("nan")
        return a / b
    if k == z3.Z3_OP_POWER:
        return ev(ch[0]) ** ev(ch[1])
    if k == z3.Z3_OP_ITE:
        return ev(ch[1]) if ev(ch[0]) else ev(ch[2])
    if k == z3.Z3_OP_TO_REAL:
        return ev(ch[0])
    if k == z3.Z3_OP_LE:
        return ev(ch[0]) <= ev(ch[1])
    if k == z3.Z3_OP_LT:
        return ev(ch[0]) < ev(ch[1])
    if k == z3.Z3_OP_GE:
        return ev(ch[0]) >= ev(ch[1])
    if k == z3.Z3_OP_GT:
        return ev(ch[0]) > ev(ch[1])
    if k == z3.Z3_OP_EQ or k == z3.Z3_OP_IFF:
        return ev(ch[0]) == ev(ch[1])
    if k == z3.Z3_OP_DISTINCT:
        vs = [ev(c) for c in ch]
        return len(set(vs)) == len(vs)
    if k == z3.Z3_OP_AND:
        return all(ev(c) for c in ch)
    if k == z3.Z3_OP_OR:
        return any(ev(c) for c in ch)
    if k == z3.Z3_OP_NOT:
        return not ev(ch[0])
    if k == z3.Z3_OP_IMPLIES:
        return (not ev(ch[0])) or ev(ch[1])
    if k == z3.Z3_OP_XOR:
        return bool(ev(ch[0])) != bool(ev(ch[1]))
    raise EvalError(f"cannot evaluate {d.name()} (kind {k})")


def holds(f, sh, tol=1e-7, want=True, memo=None):
    """Does Bool term f evaluate to `want` within tolerance (lenient near ties)?"""
    if memo is None:
        memo = {}
    if z3.is_true(f):
        return want
    if z3.is_false(f):
        return not want
    k = f.decl().kind()
    ch = f.children()
    h = lambda g, w: holds(g, sh, tol, w, memo)  # noqa
    if k == z3.Z3_OP_AND:
        return all(h(c, True) for c in ch) if want else any(h(c, False) for c in ch)
    if k == z3.Z3_OP_OR:
        return any(h(c, True) for c in ch) if want else all(h(c, False) for c in ch)
    if k == z3.Z3_OP_NOT:
        return h(ch[0], not want)
    if k == z3.Z3_OP_IMPLIES:
        return (h(ch[0], False) or h(ch[1], True)) if want else (h(ch[0], True) and h(ch[1], False))
    if k in (z3.Z3_OP_EQ, z3.Z3_OP_IFF) and z3.is_bool(ch[0]):
        if want:
            return (h(ch[0], True) and h(ch[1], True)) or (h(ch[0], False) and h(ch[1], False))
        return (h(ch[0], True) and h(ch[1], False)) or (h(ch[0], False) and h(ch[1], True))
    if k == z3.Z3_OP_XOR:
        return h(z3.Not(ch[0] == ch[1]), want)
    if k == z3.Z3_OP_ITE:
        return (h(ch[0], True) and h(ch[1], want)) or (h(ch[0], False) and h(ch[2], want))
    if k in (z3.Z3_OP_LE, z3.Z3_OP_LT, z3.Z3_OP_GE, z3.Z3_OP_GT, z3.Z3_OP_EQ, z3.Z3_OP_DISTINCT):
        a, b = numeval(ch[0], sh, memo), numeval(ch[1], sh, memo)
        if isinstance(a, float) and (math.isnan(a) or math.isnan(b)):
            return True  # undefined sub-term: not checkable here
        s = tol * (abs(a) + abs(b) + 1e-9)
        if k == z3.Z3_OP_GE:
            a, b, k = b, a, z3.Z3_OP_LE
        if k == z3.Z3_OP_GT:
            a, b, k = b, a, z3.Z3_OP_LT
        if k in (z3.Z3_OP_LE, z3.Z3_OP_LT):
            return (a <= b + s) if want else (a >= b - s)
        if k == z3.Z3_OP_EQ:
            return (abs(a - b) <= s) if want else True
        return True if want else (abs(a - b) <= s)
    if k == z3.Z3_OP_UNINTERPRETED and not ch:
        v = sh.get(f.decl().name())
        if v is None:
            raise EvalError(f"no shadow value for {f}")
        return bool(v) == want
    raise EvalError(f"cannot evaluate formula head {f.decl().name()}")


def run_at(run, values, check_axioms=True):
    """Execute harness `run(C)` concolically at the point `values` (name -> float).
    Returns (ctx, out). Raises HarnessError if a fact of the encoding fails there."""
    from . import solve
    from .core import Ctx

    C = Ctx(prune=False)
    C.shadow = {"pi": math.pi}
    C.shadow.update(values)
    Ctx.current = C
    try:
        out = run(C)
        if check_axioms:
            C._check_shadow(solve.uf_axioms(C), "Ackermann axiom instance")
            C._check_shadow(solve.mono_axioms(C), "trigonometric monotonicity axiom instance")
    finally:
        Ctx.current = None
    return C, out


def close(a, b, rel=1e-9, abs_=1e-12):
    if isinstance(a, bool) or isinstance(b, bool):
        return bool(a) == bool(b)
    if math.isnan(a) and math.isnan(b):
        return True
    return abs(a - b) <= rel * (abs(a) + abs(b)) + abs_
