"""The `np` replacement handed to the repository's modules."""
from __future__ import annotations

import math
import types
from fractions import Fraction as Fr

import numpy as _np
import z3

from . import core
from .arr import SymArray, _unary, to_obj, wrap
from .core import SV, Unsupported, ctx


def is_sym(x):
    if isinstance(x, SV):
        return x.t is not None
    if isinstance(x, SymArray):
        return not x.all_concrete()
    if isinstance(x, (list, tuple)):
        return any(is_sym(e) for e in x)
    return False


def is_ours(x):
    if isinstance(x, (SV, SymArray)):
        return True
    if isinstance(x, (list, tuple)):
        return any(is_ours(e) for e in x)
    return False


def as_sym(x, kind=None) -> SymArray:
    if isinstance(x, SymArray):
        return x
    return SymArray(to_obj(x), kind)


def _ret(r, kind=None):
    if isinstance(r, _np.ndarray):
        return SymArray(r, kind)
    return r


def _binary(pyf, kind=None):
    u = _np.frompyfunc(lambda a, b: pyf(SV.of(a), SV.of(b)), 2, 1)

    def f(x, y, *a, **k):
        if not isinstance(x, (SymArray, _np.ndarray, list, tuple)) and not isinstance(y, (SymArray, _np.ndarray, list, tuple)):
            return pyf(SV.of(x), SV.of(y))
        return _ret(u(to_obj(x), to_obj(y)), kind)

    return f


class OpaqueIndex:
    """Result of argmax/argmin over symbolic data: only meaningful to stubs."""

    def __init__(self, what, arr):
        self.what, self.arr = what, arr


class _FloatType:
    def __init__(self, real):
        self.real = real
        self.__name__ = real.__name__

    def __call__(self, x=0.0):
        if isinstance(x, (SV, SymArray)):
            return x  # REAL mode: precision casts are the identity on symbolic values
        if isinstance(x, (_np.ndarray, list, tuple)):
            return as_sym(_np.asarray(x, dtype=self.real))
        return SV.of(self.real(x))

    def __eq__(self, o):
        return o is self or o is self.real

    def __hash__(self):
        return hash(self.real)


class _IntType:
    """np.int32(x) / np.int64(x): truncation towards zero; on symbolic values an Ackermannised truncation (core.sv_trunc)"""

    def __init__(self, real):
        self.real = real
        self.__name__ = real.__name__

    def __call__(self, x=0):
        if isinstance(x, SV):
            return core.sv_trunc(x)
        if isinstance(x, SymArray):
            out = _np.empty(x.a.shape, dtype=object)
            for idx in _np.ndindex(*x.a.shape):
                out[idx] = core.sv_trunc(SV.of(x.a[idx]))
            return SymArray(out, "int")
        return self.real(x)

    def __eq__(self, o):
        return o is self or o is self.real

    def __hash__(self):
        return hash(self.real)


def _real_dtype(d):
    return d.real if isinstance(d, (_FloatType, _IntType)) else d


class _Random:
    """np.random stub: every draw is a fresh symbolic value in the documented range."""

    @staticmethod
    def _draw(lo, hi, size, closed_hi=False):
        C = ctx()
        if size is None:
            shape = ()
        elif isinstance(size, (tuple, list)):
            shape = tuple(int(s) for s in size)
        else:
            shape = (int(size),)
        out = _np.empty(shape, dtype=object)
        flat = out.reshape(-1)
        lo, hi = SV.of(lo), SV.of(hi)
        for i in range(flat.size):
            C.ndraw += 1
            t = z3.Real(f"draw{C.ndraw}")
            # numpy: uniform samples from [lo, hi) (order of lo/hi irrelevant for the range)
            l, h = lo.term(), hi.term()
            C.assume(z3.Or(z3.And(t >= l, t < h), z3.And(t <= l, t > h), z3.And(l == h, t == l)))
            C.draws.append((C.ndraw, core._where(), t))
            flat[i] = SV(t=t)
        if shape == ():
            return out[()]
        return SymArray(out, "float")

    def rand(self, *shape):
        return self._draw(0, 1, shape)

    def uniform(self, low=0.0, high=1.0, size=None):
        return self._draw(low, high, size)

    def random(self, size=None):
        return self._draw(0, 1, size)

    def seed(self, *_a, **_k):
        return None


class _NdIter:
    """np.nditer(flags=[external_loop, buffered]) stub: yields all operands as ONE chunk, or -- with
    _NdIter.chunk = c -- in consecutive chunks of c elements (the real iterator hands out chunks of at
    most its buffer size, 8192 elements by default; a small c models that boundary on a small batch)."""

    chunk = None

    def __init__(self, ops, flags=None, op_flags=None, **_k):
        arrs = [None if o is None else as_sym(o) for o in ops]
        shapes = [a.shape for a in arrs if a is not None]
        shape = _np.broadcast_shapes(*shapes) if shapes else ()
        self.operands = []
        for i, a in enumerate(arrs):
            fl = (op_flags[i] if op_flags else []) or []
            if a is None:
                if "allocate" in fl:
                    o = _np.empty(shape, dtype=object)
                    for j in _np.ndindex(*shape):
                        o[j] = SV(c=Fr(0))
                    self.operands.append(SymArray(o, "float"))
                else:
                    self.operands.append(None)
            else:
                if "no_broadcast" in fl and a.shape != shape:
                    raise ValueError("non-broadcastable operand")
                self.operands.append(SymArray(_np.broadcast_to(a.a, shape), a.kind, a.tag) if a.shape != shape else a)

    def __enter__(self):
        return self

    def __exit__(self, *a):
        return False

    def __iter__(self):
        flat = [None if o is None else o.reshape(-1) for o in self.operands]
        n = max([len(f) for f in flat if f is not None] or [0])
        c = type(self).chunk
        if not c or c >= n:
            yield tuple(flat)
            return
        for s in range(0, n, c):
            yield tuple(None if f is None else f[s:s + c] for f in flat)


def _reduce_axis(a: SymArray, axis, f, init):
    x = a.a
    if axis is None:
        r = init
        for e in x.flat:
            r = f(r, e)
        return r
    x = _np.moveaxis(x, axis, -1)
    out = _np.empty(x.shape[:-1], dtype=object)
    for idx in _np.ndindex(*x.shape[:-1]):
        r = init
        for e in x[idx]:
            r = f(r, e)
        out[idx] = r
    if out.ndim == 0:
        return out[()]
    return SymArray(out)


class _NP(types.ModuleType):
    def __init__(self):
        super().__init__("numpy_shim")
        self.random = _Random()
        self.float64 = _FloatType(_np.float64)
        self.float32 = _FloatType(_np.float32)
        self.single = self.float32
        self.int32 = _IntType(_np.int32)
        self.int64 = _IntType(_np.int64)
        self.double = self.float64
        self.nditer = _NdIter
        self.ndarray = (_np.ndarray, SymArray)
        self.inf = float("inf")
        self.newaxis = None

    def __getattr__(self, name):
        if name == "pi":
            return core.pi_sv()
        real = getattr(_np, name)
        if callable(real) and not isinstance(real, type):
            def guarded(*a, **k):
                if any(is_ours(x) for x in a) or any(is_ours(v) for v in k.values()):
                    raise Unsupported(f"numpy.{name} is not modelled by the shim")
                return real(*a, **k)

            guarded.__name__ = name
            return guarded
        return real

    # -- elementwise -------------------------------------------------------------------
    sqrt = staticmethod(lambda x, **k: _unary(core.sv_sqrt, "float")(x))
    cbrt = staticmethod(lambda x, **k: _unary(core.sv_cbrt, "float")(x))
    sin = staticmethod(lambda x, **k: _unary(core.sv_sin, "float")(x))
    cos = staticmethod(lambda x, **k: _unary(core.sv_cos, "float")(x))
    tan = staticmethod(lambda x, **k: _unary(core.sv_tan, "float")(x))
    arcsin = staticmethod(lambda x, **k: _unary(core.sv_arcsin, "float")(x))
    arccos = staticmethod(lambda x, **k: _unary(core.sv_arccos, "float")(x))
    arctan = staticmethod(lambda x, **k: _unary(core.sv_arctan, "float")(x))
    degrees = staticmethod(lambda x, **k: _unary(core.sv_degrees, "float")(x))
    rad2deg = degrees
    radians = staticmethod(lambda x, **k: _unary(core.sv_radians, "float")(x))
    deg2rad = radians
    exp = staticmethod(lambda x, **k: _unary(core.sv_exp, "float")(x))
    log = staticmethod(lambda x, **k: _unary(core.sv_log, "float")(x))
    log10 = staticmethod(lambda x, **k: _unary(core.sv_log10, "float")(x))
    abs = staticmethod(lambda x, **k: _unary(lambda a: core.sv_abs(SV.of(a)), "float")(x))
    absolute = abs
    negative = staticmethod(lambda x, **k: _unary(lambda a: -SV.of(a), "float")(x))
    square = staticmethod(lambda x, **k: _unary(lambda a: SV.of(a) * SV.of(a), "float")(x))
    reciprocal = staticmethod(lambda x, **k: _unary(lambda a: SV(c=Fr(1)) / SV.of(a), "float")(x))
    logical_not = staticmethod(lambda x, **k: _unary(lambda a: ~core._b(SV.of(a)), "bool")(x))
    isnan = staticmethod(lambda x, **k: _unary(lambda a: SV(c=False, kind="B"), "bool")(x))
    isinf = staticmethod(lambda x, **k: _unary(lambda a: SV(c=SV.of(a).is_inf(), kind="B"), "bool")(x))
    isfinite = staticmethod(lambda x, **k: _unary(lambda a: SV(c=not SV.of(a).is_inf(), kind="B"), "bool")(x))

    arctan2 = staticmethod(_binary(core.sv_arctan2, "float"))
    add = staticmethod(_binary(lambda a, b: a + b))
    subtract = staticmethod(_binary(lambda a, b: a - b))
    multiply = staticmethod(_binary(lambda a, b: a * b))
    divide = staticmethod(_binary(lambda a, b: a / b))
    true_divide = divide
    power = staticmethod(_binary(lambda a, b: a**b))
    maximum = staticmethod(_binary(core.sv_max))
    minimum = staticmethod(_binary(core.sv_min))
    logical_and = staticmethod(_binary(lambda a, b: core._b(a) & core._b(b), "bool"))
    logical_or = staticmethod(_binary(lambda a, b: core._b(a) | core._b(b), "bool"))
    logical_xor = staticmethod(_binary(lambda a, b: core._b(a) ^ core._b(b), "bool"))
    less = staticmethod(_binary(lambda a, b: a < b, "bool"))
    greater = staticmethod(_binary(lambda a, b: a > b, "bool"))

    # -- selection -----------------------------------------------------------------------
    @staticmethod
    def where(c, *ab):
        if not ab:
            return _np.where(_np.asarray(as_sym(c)))
        a, b = ab
        u = _np.frompyfunc(lambda c_, a_, b_: core.sv_if(c_, a_, b_), 3, 1)
        r = u(to_obj(c), to_obj(a), to_obj(b))
        return _ret(r)

    @staticmethod
    def clip(x, lo=None, hi=None, **k):
        lo = k.pop("a_min", k.pop("min", lo))
        hi = k.pop("a_max", k.pop("max", hi))
        if lo is None and hi is None:
            raise ValueError("One of max or min must be given")
        if hi is None:
            u = _np.frompyfunc(lambda a, l: core.sv_max(a, l), 2, 1)
            return _ret(u(to_obj(x), to_obj(lo)))
        if lo is None:
            u = _np.frompyfunc(lambda a, h: core.sv_min(a, h), 2, 1)
            return _ret(u(to_obj(x), to_obj(hi)))
        u = _np.frompyfunc(lambda a, l, h: core.sv_min(core.sv_max(a, l), h), 3, 1)
        return _ret(u(to_obj(x), to_obj(lo), to_obj(hi)))

    # -- reductions ----------------------------------------------------------------------
    @staticmethod
    def sum(a, axis=None, **k):
        a = as_sym(a)
        return _reduce_axis(a, axis, lambda r, e: r + core._n(e), SV(c=Fr(0)))

    @staticmethod
    def cumsum(a, axis=None, **k):
        a = as_sym(a)
        x = a.a.reshape(-1) if axis is None else a.a
        ax = 0 if axis is None else axis
        x = _np.moveaxis(x, ax, -1)
        out = _np.empty(x.shape, dtype=object)
        for idx in _np.ndindex(*x.shape[:-1]):
            r = SV(c=Fr(0))
            for j in range(x.shape[-1]):
                r = r + x[idx + (j,)]
                out[idx + (j,)] = r
        return SymArray(_np.moveaxis(out, -1, ax), "float")

    @staticmethod
    def mean(a, axis=None, **k):
        a = as_sym(a)
        n = a.size if axis is None else a.shape[axis]
        return NP.sum(a, axis=axis) / n

    @staticmethod
    def var(a, axis=None, ddof=0, **k):
        a = as_sym(a)
        if axis is not None or a.ndim != 1:
            raise Unsupported("var over an axis")
        n = a.size
        if n == 0:
            ctx().need("var-empty", False)
            return SV(t=ctx().fresh("undef", val=float("nan")))
        m = NP.sum(a) / n
        s = SV(c=Fr(0))
        for e in a.a.flat:
            d = e - m
            s = s + d * d
        if n - ddof <= 0:
            ctx().need("var-ddof", False)
            # NaN in NumPy; modelled as a deterministic uninterpreted value of the inputs
            return core._opaque("nan_var", *[e for e in a.a.flat])
        return s / (n - ddof)

    @staticmethod
    def count_nonzero(a, axis=None, **k):
        a = as_sym(a)
        nz = _unary(lambda e: core.bool_to_real(core._b(SV.of(e))))(a)
        return _reduce_axis(nz, axis, lambda r, e: r + e, SV(c=Fr(0), isint=True))

    @staticmethod
    def _extreme(a, axis, f):
        a = as_sym(a)
        if a.size == 0:
            raise ValueError("zero-size array to reduction operation")
        x = a.a
        if axis is None:
            it = iter(x.flat)
            r = next(it)
            for e in it:
                r = f(r, e)
            return r
        x = _np.moveaxis(x, axis, -1)
        out = _np.empty(x.shape[:-1], dtype=object)
        for idx in _np.ndindex(*x.shape[:-1]):
            r = x[idx + (0,)]
            for e in x[idx][1:]:
                r = f(r, e)
            out[idx] = r
        return out[()] if out.ndim == 0 else SymArray(out)

    @staticmethod
    def min(a, axis=None, **k):
        return NP._extreme(a, axis, core.sv_min)

    @staticmethod
    def max(a, axis=None, **k):
        return NP._extreme(a, axis, core.sv_max)

    @staticmethod
    def all(a, axis=None, **k):
        a = as_sym(a)
        return _reduce_axis(a, axis, lambda r, e: r & core._b(e), SV(c=True, kind="B"))

    @staticmethod
    def any(a, axis=None, **k):
        a = as_sym(a)
        return _reduce_axis(a, axis, lambda r, e: r | core._b(e), SV(c=False, kind="B"))

    @staticmethod
    def argmax(a, axis=None, **k):
        a = as_sym(a)
        if a.all_concrete():
            return _np.argmax(_np.asarray(a), axis=axis)
        return OpaqueIndex("argmax", a)

    @staticmethod
    def argmin(a, axis=None, **k):
        a = as_sym(a)
        if a.all_concrete():
            return _np.argmin(_np.asarray(a), axis=axis)
        return OpaqueIndex("argmin", a)

    @staticmethod
    def searchsorted(a, v, side="left", **k):
        a = as_sym(a)
        if a.ndim != 1:
            raise Unsupported("searchsorted on nd array")

        def one(x):
            x = SV.of(x)
            n = a.size
            for i in range(n):
                c = (a.a[i] >= x) if side == "left" else (a.a[i] > x)
                if bool(c):
                    return i
            return n

        if isinstance(v, (SymArray, _np.ndarray, list, tuple)):
            vv = as_sym(v)
            out = _np.empty(vv.shape, dtype=int)
            for idx in _np.ndindex(*vv.shape):
                out[idx] = one(vv.a[idx])
            return out
        return one(v)

    # -- construction ----------------------------------------------------------------------
    @staticmethod
    def _filled(shape, val, kind=None):
        if isinstance(shape, (int, _np.integer)):
            shape = (int(shape),)
        elif isinstance(shape, SV):
            shape = (shape.__index__(),)
        else:
            shape = tuple(int(s) if not isinstance(s, SV) else s.__index__() for s in shape)
        out = _np.empty(shape, dtype=object)
        v = to_obj(val)
        if v.ndim == 0:
            sv = v[()]
            for idx in _np.ndindex(*shape):
                out[idx] = sv
        else:
            out[...] = _np.broadcast_to(v, shape)
        return SymArray(out, kind)

    @staticmethod
    def _kind(dtype, default="float"):
        if dtype is None:
            return default
        if dtype in (int, _np.int64, _np.int32, "int") or isinstance(dtype, _IntType):
            return "int"
        if dtype in (bool, _np.bool_):
            return "bool"
        return "float"

    @staticmethod
    def _zero(kind):
        if kind == "bool":
            return SV(c=False, kind="B")
        return SV(c=Fr(0), isint=(kind == "int"))

    @staticmethod
    def zeros(shape, dtype=None, **k):
        kd = NP._kind(dtype)
        return NP._filled(shape, NP._zero(kd), kd)

    @staticmethod
    def ones(shape, dtype=None, **k):
        kd = NP._kind(dtype)
        return NP._filled(shape, SV(c=True, kind="B") if kd == "bool" else SV(c=Fr(1), isint=(kd == "int")), kd)

    @staticmethod
    def empty(shape, dtype=None, **k):
        return NP.zeros(shape, dtype)

    @staticmethod
    def full(shape, fill_value, dtype=None, **k):
        return NP._filled(shape, fill_value, NP._kind(dtype, None))

    @staticmethod
    def zeros_like(a, dtype=None, **k):
        a = as_sym(a)
        kd = NP._kind(dtype, a.kind or "float")
        return NP._filled(a.shape, NP._zero(kd), kd)

    @staticmethod
    def ones_like(a, dtype=None, **k):
        a = as_sym(a)
        return NP.ones(a.shape, dtype)

    @staticmethod
    def empty_like(a, dtype=None, **k):
        return NP.zeros_like(a, dtype)

    @staticmethod
    def full_like(a, fill_value, dtype=None, **k):
        a = as_sym(a)
        return NP._filled(a.shape, fill_value, a.kind)

    @staticmethod
    def arange(*args, **k):
        vals = [SV.of(x) for x in args]
        if any(v.t is not None for v in vals) or (len(vals) == 3 and not all(v.isint for v in vals)):
            return NP._arange_float(vals)
        cs = [v.c for v in vals]
        if len(cs) == 1:
            start, stop, step = Fr(0), cs[0], Fr(1)
        elif len(cs) == 2:
            start, stop, step = cs[0], cs[1], Fr(1)
        else:
            start, stop, step = cs
        out = []
        x = start
        isint = all(v.isint for v in vals)
        while (x < stop) if step > 0 else (x > stop):
            out.append(SV(c=x, isint=isint))
            x = x + step
        r = _np.empty((len(out),), dtype=object)
        for i, e in enumerate(out):
            r[i] = e
        return SymArray(r, "int" if isint else "float")

    @staticmethod
    def _arange_float(vals):
        """np.arange with a non-integer or symbolic step.  NumPy's length is ceil((stop - start) / step) evaluated in
        IEEE double; the shim computes it in exact arithmetic (it must be the same for every value of the symbols,
        which the solver confirms) and records the call as an event: whether the IEEE length agrees with the exact
        one is a floating-point side condition that a harness can discharge (see harness.arange_fp_obligations)."""
        C = core.ctx()
        if len(vals) == 1:
            start, stop, step = SV(c=Fr(0)), vals[0], SV(c=Fr(1))
        elif len(vals) == 2:
            start, stop, step = vals[0], vals[1], SV(c=Fr(1))
        else:
            start, stop, step = vals
        q = (stop - start) / step
        if q.t is None:
            L = max(0, math.ceil(q.c))
        else:
            # candidate from one rational sample point, then confirmed for all values by the solver
            import z3 as _z3

            from . import solve

            names = sorted(solve.vars_of(q.term()) - {"pi"})
            sub = [(_z3.Real(n), _z3.RealVal("7919/1000")) for n in names]
            v = _z3.simplify(_z3.substitute(q.term(), *sub))
            if not _z3.is_rational_value(v):
                raise Unsupported("arange with symbolic bounds: length not a rational function of the symbols")
            L = max(0, math.ceil(Fr(v.numerator_as_long(), v.denominator_as_long())))
            lit = _z3.And(q.term() > L - 1, q.term() <= L) if L > 0 else q.term() <= 0
            if solve.quick_feasible(C, _z3.Not(lit), 5000) != "unsat":
                raise Unsupported("arange with symbolic bounds: the number of elements depends on the symbols")
        w = core._where()
        C.events.append(("arange-float", w, L))  # (picklable summary for the evidence)
        if not hasattr(C, "arange_calls"):
            C.arange_calls = []
        C.arange_calls.append(("arange-float", start, stop, step, L, w))
        r = _np.empty((L,), dtype=object)
        for i in range(L):
            r[i] = start + step * Fr(i)
        return SymArray(r, "float")

    @staticmethod
    def linspace(start, stop, num=50, **k):
        s, e = SV.of(start), SV.of(stop)
        num = int(num)
        r = _np.empty((num,), dtype=object)
        for i in range(num):
            r[i] = s + (e - s) * Fr(i, num - 1) if num > 1 else s
        return SymArray(r, "float")

    @staticmethod
    def array(x, dtype=None, **k):
        if isinstance(x, SymArray):
            return x.copy()
        return SymArray(to_obj(x).copy(), NP._kind(dtype, None))

    @staticmethod
    def _cast(x, dtype):
        """elementwise value conversion of np.asarray / np.array / astype to an INTEGER dtype: truncation toward zero
        (symbolic elements: Ackermannised truncation, see core.sv_trunc); other dtypes keep the values"""
        a = as_sym(x)
        try:
            is_int = dtype is not None and _np.issubdtype(_np.dtype(dtype), _np.integer)
        except TypeError:
            is_int = False
        if not is_int or a.kind in ("int", "bool"):
            return None
        out = _np.empty(a.a.shape, dtype=object)
        for idx in _np.ndindex(*a.a.shape):
            e = SV.of(a.a[idx])
            out[idx] = e if e.isint else core.sv_trunc(e)
        return SymArray(out, "int")

    @staticmethod
    def asarray(x, dtype=None, **k):
        c = NP._cast(x, dtype) if dtype is not None else None
        if c is not None:
            return c
        if isinstance(x, SymArray):
            return x
        return SymArray(to_obj(x), NP._kind(dtype, None))

    @staticmethod
    def copy(x, **k):
        return as_sym(x).copy()

    @staticmethod
    def ravel(x, **k):
        return as_sym(x).ravel()

    @staticmethod
    def reshape(x, shape, **k):
        return as_sym(x).reshape(shape)

    @staticmethod
    def concatenate(xs, axis=0, **k):
        return SymArray(_np.concatenate([to_obj(x) for x in xs], axis=axis))

    @staticmethod
    def append(a, v, axis=None):
        return SymArray(_np.append(to_obj(a), to_obj(v), axis=axis))

    @staticmethod
    def insert(a, idx, v, axis=None):
        vv = to_obj(v)
        return SymArray(_np.insert(to_obj(a), idx, vv if vv.ndim else vv[()], axis=axis))

    @staticmethod
    def stack(xs, axis=0, **k):
        return SymArray(_np.stack([to_obj(x) for x in xs], axis=axis))

    @staticmethod
    def column_stack(xs):
        return SymArray(_np.column_stack([to_obj(x) for x in xs]))

    @staticmethod
    def broadcast_to(a, shape, **k):
        a = as_sym(a)
        return SymArray(_np.broadcast_to(a.a, shape), a.kind, a.tag)

    @staticmethod
    def shape(a):
        return as_sym(a).shape

    @staticmethod
    def size(a):
        return as_sym(a).size

    @staticmethod
    def ndim(a):
        return as_sym(a).ndim

    @staticmethod
    def interp(x, xp, fp, left=None, right=None, **k):
        """np.interp: 1-D piecewise-linear interpolation, clamped to fp[0] / fp[-1] outside xp (forks on the bracket)."""
        xp_, fp_ = as_sym(xp), as_sym(fp)
        n = xp_.shape[0]

        def one(v):
            v = SV.of(v)
            if bool(v < xp_.a[0]):
                return SV.of(left) if left is not None else fp_.a[0]
            if bool(v > xp_.a[n - 1]):
                return SV.of(right) if right is not None else fp_.a[n - 1]
            for i in range(1, n):
                if i == n - 1 or bool(v < xp_.a[i]):
                    a0, a1 = xp_.a[i - 1], xp_.a[i]
                    return fp_.a[i - 1] + (fp_.a[i] - fp_.a[i - 1]) * ((v - a0) / (a1 - a0))
            return fp_.a[n - 1]

        if isinstance(x, (SymArray, _np.ndarray, list, tuple)):
            xx = as_sym(x)
            out = _np.empty(xx.shape, dtype=object)
            for idx in _np.ndindex(*xx.shape):
                out[idx] = one(xx.a[idx])
            return SymArray(out, "float")
        return one(x)

    @staticmethod
    def putmask(a, mask, values):
        """np.putmask(a, mask, values): a.flat[n] = values[n % len(values)] where mask.flat[n]"""
        a = as_sym(a)
        m = _np.asarray(as_sym(mask)).reshape(-1)  # forks on a symbolic mask
        v = to_obj(values).reshape(-1)
        if a.tag is not None:
            ctx().events.append(("mutate-input", a.tag, core._where()))
        flat = a.a.reshape(-1)
        for i in range(flat.size):
            if m[i]:
                flat[i] = v[i % v.size]

    @staticmethod
    def place(arr, mask, vals):
        """np.place(arr, mask, vals): the k-th True position of mask gets vals[k % len(vals)] (values are consumed
        sequentially, NOT by position)"""
        a = as_sym(arr)
        m = _np.asarray(as_sym(mask)).reshape(-1)  # forks on a symbolic mask
        v = to_obj(vals).reshape(-1)
        if a.tag is not None:
            ctx().events.append(("mutate-input", a.tag, core._where()))
        flat = a.a.reshape(-1)
        k = 0
        for i in range(flat.size):
            if m[i]:
                if v.size == 0:
                    raise ValueError("Cannot insert from an empty array!")
                flat[i] = v[k % v.size]
                k += 1

    @staticmethod
    def isclose(a, b, rtol=1e-05, atol=1e-08, equal_nan=False):
        """|a - b| <= atol + rtol * |b| (elementwise, as NumPy defines it: asymmetric in a and b)"""
        a, b = as_sym(a), as_sym(b)
        return NP.abs(a - b) <= (SV.of(atol) + SV.of(rtol) * NP.abs(b))

    @staticmethod
    def digitize(x, bins, right=False):
        """np.digitize for concrete monotonic bins (increasing or decreasing), NumPy's interval conventions"""
        bs = as_sym(bins)
        if bs.ndim != 1:
            raise Unsupported("digitize: bins must be 1-D")
        bl = [SV.of(e) for e in bs.a]
        if any(e.t is not None for e in bl):
            raise Unsupported("digitize with symbolic bins")
        vals = [e.c for e in bl]
        inc = all(vals[i] <= vals[i + 1] for i in range(len(vals) - 1))
        dec = all(vals[i] >= vals[i + 1] for i in range(len(vals) - 1))
        if not (inc or dec):
            raise ValueError("bins must be monotonically increasing or decreasing")

        def one(xe):
            xe = SV.of(xe)
            n = 0
            for e in bl:
                if inc:
                    c = (e < xe) if right else (e <= xe)
                else:
                    c = (e >= xe) if right else (e > xe)
                if bool(c):
                    n += 1
            return n

        if isinstance(x, (SymArray, _np.ndarray, list, tuple)):
            xx = as_sym(x)
            out = _np.empty(xx.shape, dtype=int)
            for idx in _np.ndindex(*xx.shape):
                out[idx] = one(xx.a[idx])
            return out
        return one(x)

    @staticmethod
    def take(a, indices, axis=None, **k):
        a = as_sym(a)
        if isinstance(indices, OpaqueIndex) and indices.what == "argmax":
            # position of the first maximum of a Boolean array = first True entry (0 if none): decided by forking
            flat = list(as_sym(indices.arr).a.reshape(-1))
            if all(isinstance(e, (bool, _np.bool_)) or (isinstance(e, SV) and e.kind == "B") for e in flat):
                indices = next((i for i, e in enumerate(flat) if bool(e)), 0)
            else:
                raise Unsupported("take() at the argmax of symbolic non-Boolean data")
        idx = _np.asarray(indices)
        if idx.dtype == object:  # symbolic or SV-wrapped indices: concretise (forks on a symbolic index)
            idx = _np.array([e.__index__() if isinstance(e, SV) else int(e) for e in idx.reshape(-1)], dtype=int).reshape(idx.shape)
        if axis is None:
            return SymArray(a.a.reshape(-1)[idx], a.kind) if idx.ndim else a.a.reshape(-1)[int(idx)]
        r = _np.take(a.a, idx, axis=axis)
        return SymArray(r, a.kind) if isinstance(r, _np.ndarray) else r

    @staticmethod
    def array_equal(a, b, **k):
        a, b = as_sym(a), as_sym(b)
        if a.shape != b.shape:
            return False
        return NP.all(a == b)

    @staticmethod
    def finfo(t):
        return _np.finfo(_real_dtype(t))

    @staticmethod
    def errstate(**k):
        return _np.errstate(**k)

    @staticmethod
    def isscalar(x):
        return isinstance(x, SV) or _np.isscalar(x)


NP = _NP()


class _Outer:
    def __init__(self, f):
        self.f = f

    def outer(self, a, b):
        a, b = as_sym(a), as_sym(b)
        u = _np.frompyfunc(self.f, 2, 1)
        return _ret(u.outer(a.a, b.a))

    def __call__(self, a, b, **k):
        return _binary(self.f)(a, b)


NP.subtract = _Outer(lambda a, b: SV.of(a) - SV.of(b))
NP.multiply = _Outer(lambda a, b: SV.of(a) * SV.of(b))
NP.add = _Outer(lambda a, b: SV.of(a) + SV.of(b))


def _np_outer(a, b, **k):
    """np.outer: flattened operands, products"""
    a, b = as_sym(a), as_sym(b)
    return NP.multiply.outer(SymArray(a.a.reshape(-1), a.kind), SymArray(b.a.reshape(-1), b.kind))


NP.outer = _np_outer


NP.flatnonzero = lambda a: _np.flatnonzero(_np.asarray(as_sym(a)))  # forks on a symbolic mask; concrete indices
NP.nonzero = lambda a: _np.nonzero(_np.asarray(as_sym(a)))
NP.argwhere = lambda a: _np.argwhere(_np.asarray(as_sym(a)))
