#!/bin/sh
# run_seed_wt.sh <worktree> <diff> <outfile> <ID> [more IDs]
# Experimental: run the quick checks against a scratch worktree with the change applied
# (evidence goes to a scratch directory; /repo and /verif/evidence are untouched).
WT=$1; DIFF=$2; OUT=$3; shift 3
cd /verif || exit 2
git -C "$WT" checkout -q -- . && git -C "$WT" apply "$DIFF" || { echo "PATCH DOES NOT APPLY"; exit 2; }
: > "$OUT"
for ID in "$@"; do
  VERIF_REPO="$WT" VERIF_EVIDENCE_DIR=/tmp/seed/evidence ./check "$ID" --tier quick > /tmp/rsw_$$.out 2>&1; E=$?
  echo "## ./check $ID --tier quick -> exit $E" >> "$OUT"
  grep -v "^    " /tmp/rsw_$$.out | cut -c1-400 | head -12 >> "$OUT"
done
git -C "$WT" checkout -q -- .
cat "$OUT"
