#!/bin/bash
# kill stray check workers (by pid list; avoids pkill -f matching the caller's own shell)
for p in $(pgrep -f 'python -W ignore -m symnp[.]main'); do
  [ "$p" != "$$" ] && kill "$p" 2>/dev/null
done
exit 0
