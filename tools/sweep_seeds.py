#!/usr/bin/env python3
"""sweep_seeds.py [--par K] [--only REGEX] [--ids-from-meta]

Re-runs the quick check(s) recorded in every /verif/seeded/C*_*/meta.json against a scratch
git worktree of /repo with the seed's patch applied (VERIF_REPO=<worktree>; evidence goes to a
scratch directory), rewrites check_output.txt and the exit_codes / detected fields of meta.json.
The worktrees live under /tmp/sweep and are removed at the end."""
import concurrent.futures as cf
import glob
import json
import os
import re
import subprocess
import sys
import time

par = 2
only = None
for i, a in enumerate(sys.argv):
    if a == "--par":
        par = int(sys.argv[i + 1])
    if a == "--only":
        only = re.compile(sys.argv[i + 1])
os.makedirs("/tmp/sweep/ev", exist_ok=True)
seeds = [d for d in sorted(glob.glob("/verif/seeded/C*_*")) if os.path.exists(d + "/meta.json") and (not only or only.search(os.path.basename(d)))]


def wt(k):
    p = f"/tmp/sweep/wt{k}"
    if not os.path.isdir(p):
        subprocess.run(["git", "-C", "/repo", "worktree", "add", "--detach", "-f", p, "HEAD"], check=True, capture_output=True)
        # build output that git does not track (compiled stepping kernel, generated version file)
        for rel in subprocess.run(["git", "-C", "/repo", "ls-files", "-o", "-i", "--exclude-standard", "src/nuspacesim"], capture_output=True, text=True).stdout.split():
            if rel.endswith((".so", "_version.py")):
                subprocess.run(["cp", "/repo/" + rel, p + "/" + rel], check=True)
    return p


def run(job):
    k, d = job
    w = wt(k)
    name = os.path.basename(d)
    meta = json.load(open(d + "/meta.json"))
    ids = list(meta.get("exit_codes", {}).keys()) or [meta["property"]]
    subprocess.run(["git", "-C", w, "checkout", "-q", "--", "."], check=True)
    a = subprocess.run(["git", "-C", w, "apply", d + "/patch.diff"], capture_output=True, text=True)
    if a.returncode:
        return name, {"apply": "FAILED " + a.stderr[:200]}
    out = []
    ec = {}
    t0 = time.time()
    for pid in ids:
        env = dict(os.environ, VERIF_REPO=w, VERIF_EVIDENCE_DIR=f"/tmp/sweep/ev/{name}")
        os.makedirs(env["VERIF_EVIDENCE_DIR"], exist_ok=True)
        r = subprocess.run(["/verif/check", pid, "--tier", "quick"], capture_output=True, text=True, env=env, cwd="/verif")
        ec[pid] = r.returncode
        out.append(f"## ./check {pid} --tier quick -> exit {r.returncode}")
        lines = [l[:400] for l in (r.stdout + r.stderr).splitlines() if not l.startswith("    ")]
        out += lines[:12]
    subprocess.run(["git", "-C", w, "checkout", "-q", "--", "."], check=True)
    open(d + "/check_output.txt", "w").write("\n".join(out) + "\n")
    meta["exit_codes"] = ec
    meta["detected"] = any(e == 1 for e in ec.values())
    meta["checks_run"] = [f"VERIF_REPO=<scratch worktree with the change applied> ./check {i} --tier quick" for i in ids]
    meta["secs"] = round(time.time() - t0)
    json.dump(meta, open(d + "/meta.json", "w"), indent=1)
    return name, ec


# static assignment of seeds to worktrees so that one worktree is used by one thread at a time
buckets = [[] for _ in range(par)]
for i, d in enumerate(seeds):
    buckets[i % par].append(d)


def worker(k):
    res = []
    for d in buckets[k]:
        try:
            r = run((k, d))
        except Exception as e:  # noqa
            r = (os.path.basename(d), {"error": repr(e)})
        print(time.strftime("%H:%M:%S"), r[0], r[1], flush=True)
        res.append(r)
    return res


with cf.ThreadPoolExecutor(par) as ex:
    allr = [x for rs in ex.map(worker, range(par)) for x in rs]
for k in range(par):
    subprocess.run(["git", "-C", "/repo", "worktree", "remove", "--force", f"/tmp/sweep/wt{k}"], capture_output=True)
subprocess.run(["rm", "-rf", "/tmp/sweep"])
miss = [n for n, ec in allr if not any(v == 1 for v in ec.values() if isinstance(v, int))]
print("NOT REPORTED:", miss)
