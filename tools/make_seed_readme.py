#!/usr/bin/env python3
"""make_seed_readme.py -- rewrites the table of property-breaking changes in seeded/README.md from the meta.json files
(everything between the markers <!-- SEED-TABLE --> and <!-- /SEED-TABLE -->)."""
import re
import subprocess

p = "/verif/seeded/README.md"
s = open(p).read()
tab = subprocess.run(["python3", "/verif/tools/seed_table.py"], capture_output=True, text=True).stdout
a, b = "<!-- SEED-TABLE -->", "<!-- /SEED-TABLE -->"
assert a in s and b in s
s = s[: s.index(a) + len(a)] + "\n" + tab + s[s.index(b):]
open(p, "w").write(s)
print(tab.splitlines()[-1])
