#!/bin/sh
# run_seed.sh <seed_dir> <ID> [more IDs]  -- applies seeded/<x>/patch.diff to /repo, runs the quick checks, reverts.
SD=$1; shift
cd /verif || exit 2
git -C /repo diff --quiet || { echo "/repo is dirty"; exit 2; }
git -C /repo apply "$SD/patch.diff" || { echo "PATCH DOES NOT APPLY to /repo"; exit 2; }
: > "$SD/check_output.txt"
for ID in "$@"; do
  ./check "$ID" --tier quick > /tmp/rs_$ID.out 2>&1; E=$?
  echo "## ./check $ID --tier quick -> exit $E" >> "$SD/check_output.txt"
  grep -v "^    " /tmp/rs_$ID.out | cut -c1-400 | head -12 >> "$SD/check_output.txt"
done
git -C /repo checkout -- .
cat "$SD/check_output.txt"
