#!/usr/bin/env python3
"""add_needs.py -- add the 'needs' (what the change needs to manifest) and 'clause' fields to every
/verif/seeded/*/meta.json, taken from the sub-agent's SEED_NOTES.md section for that variant."""
import glob
import json
import os
import re


def section(notes, variant):
    # split at headings that introduce a variant ("## Seed A", "## A --", "## A:", "### Change A" ...)
    pat = re.compile(r"^#{1,4}\s*(?:Seed|Change|Variant)?\s*\(?([AB])\)?\b[^\n]*$", re.M)
    marks = [(m.start(), m.group(1)) for m in pat.finditer(notes)]
    for i, (pos, v) in enumerate(marks):
        if v == variant:
            end = next((p for p, _v in marks[i + 1:] if _v != variant), len(notes))
            return notes[pos:end]
    return ""


def grab(sec, keys):
    for k in keys:
        m = re.search(r"(?im)^[\s*\-]*\**\s*" + k + r"[^:\n]*:\**\s*(.+?)(?=\n\s*\n|\n\s*[*\-]\s+\**[A-Z][^\n]{0,60}:|\n#|\Z)", sec, re.S)
        if m:
            return re.sub(r"\s+", " ", m.group(1)).strip()
    return ""


for d in sorted(glob.glob("/verif/seeded/C*_*")):
    mp, np_ = os.path.join(d, "meta.json"), os.path.join(d, "SEED_NOTES.md")
    if not (os.path.exists(mp) and os.path.exists(np_)):
        continue
    meta = json.load(open(mp))
    sec = section(open(np_).read(), meta.get("notes_section") or meta.get("variant", "A"))
    needs = grab(sec, ["What (?:it|is) need", "Needed to manifest", "What is needed", "Needs", "Manifest"])
    clause = grab(sec, ["Clauses? broken", "Clause", "Breaks"])
    meta["needs"] = needs[:900] or meta.get("needs") or "see SEED_NOTES.md"
    meta["clause_broken"] = clause[:500] or meta.get("clause_broken") or "see SEED_NOTES.md"
    json.dump(meta, open(mp, "w"), indent=1)
    print(os.path.basename(d), "| needs:", meta["needs"][:110])
