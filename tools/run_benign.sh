#!/bin/sh
# run_benign.sh <diff> <ID> [more IDs] -- run quick checks against scratch worktree /tmp/seed/x1 with a behaviour-preserving change applied
DIFF=$1; shift
WT=${BENIGN_WT:-/tmp/seed/x1}
cd /verif || exit 2
git -C "$WT" checkout -q -- . && git -C "$WT" apply "$DIFF" || { echo "PATCH DOES NOT APPLY"; exit 2; }
for ID in "$@"; do
  VERIF_REPO="$WT" VERIF_EVIDENCE_DIR=/tmp/seed/evidence ./check "$ID" --tier quick > /tmp/rb_$$.out 2>&1; E=$?
  echo "## $(basename $DIFF): ./check $ID -> exit $E"
  grep -v "^    " /tmp/rb_$$.out | cut -c1-300 | head -8
done
git -C "$WT" checkout -q -- .
