#!/usr/bin/env python3
"""ingest_seed.py <ID> [A|B ...] [--also C03,C14]

Confirms a sub-agent's seeded change in its scratch worktree (clean: demo PASS; seeded: 45
tests pass, demo FAIL), runs the quick check(s) against the worktree with the change applied
(evidence to a scratch directory), and files it under /verif/seeded/<ID>_<X>/ ."""
import json
import os
import re
import shutil
import subprocess
import sys
import time

pid = sys.argv[1]
rest = [a for a in sys.argv[2:] if not a.startswith("--")]
also = []
vmap = {}
for a in sys.argv[2:]:
    if a.startswith("--also"):
        also = a.split("=", 1)[1].split(",")
    if a.startswith("--map"):  # second campaign: --map=A:C,B:D files seedA/seedB of the worktree as <ID>_C / <ID>_D
        vmap = dict(kv.split(":") for kv in a.split("=", 1)[1].split(","))
xs = rest or ["A", "B"]
wtroot = next((a.split("=", 1)[1] for a in sys.argv[2:] if a.startswith("--wtroot")), "/tmp/seed")
nocheck = "--nocheck" in sys.argv  # file the change only; tools/sweep_seeds.py runs the checks later
wt = f"{wtroot}/wt_{pid}"
for x in xs:
    diff, demo = f"{wt}/seed{x}.diff", f"{wt}/demo{x}.py"
    if not (os.path.exists(diff) and os.path.exists(demo)):
        print(f"{pid}_{x}: missing files")
        continue
    t0 = time.time()
    v = subprocess.run(["/verif/tools/verify_seed.sh", wt, diff, demo], capture_output=True, text=True)
    ok = v.returncode == 0
    res_line = [l for l in v.stdout.splitlines() if l.startswith("RESULT")]
    print(f"{pid}_{x}: verify {'OK' if ok else 'FAILED'} {res_line}")
    sd = f"/verif/seeded/{pid}_{vmap.get(x, x)}"
    os.makedirs(sd, exist_ok=True)
    shutil.copy(diff, f"{sd}/patch.diff")
    shutil.copy(demo, f"{sd}/demo.py")
    if os.path.exists(f"{wt}/SEED_NOTES.md"):
        shutil.copy(f"{wt}/SEED_NOTES.md", f"{sd}/SEED_NOTES.md")
    meta = {"property": pid, "variant": vmap.get(x, x), "notes_section": x, "campaign": (3 if "seed3" in wtroot else 2) if vmap else 1, "confirmed_in_scratch_worktree": ok, "verify_output": v.stdout[-1500:],
            "verify_cmd": f"tools/verify_seed.sh {wt} seed{x}.diff demo{x}.py (clean: demo exit 0; seeded: 45 tests pass, demo exit 1)"}
    if not ok:
        json.dump(meta, open(f"{sd}/meta.json", "w"), indent=1)
        continue
    ids = [pid] + also
    if nocheck:
        meta.update({"exit_codes": {i: None for i in ids}, "files_touched": sorted(set(re.findall(r"^\+\+\+ b/(.*)$", open(diff).read(), re.M)))})
        json.dump(meta, open(f"{sd}/meta.json", "w"), indent=1)
        continue
    out = f"{sd}/check_output.txt"
    r = subprocess.run(["/verif/tools/run_seed_wt.sh", wt, diff, out] + ids, capture_output=True, text=True)
    txt = open(out).read() if os.path.exists(out) else r.stdout
    det = {}
    for m in re.finditer(r"## ./check (\w+) --tier quick -> exit (\d+)", txt):
        det[m.group(1)] = int(m.group(2))
    meta.update({"checks_run": [f"VERIF_REPO={wt} ./check {i} --tier quick (change applied)" for i in ids], "exit_codes": det,
                 "detected": any(e == 1 for e in det.values()), "files_touched": sorted(set(re.findall(r"^\+\+\+ b/(.*)$", open(diff).read(), re.M))),
                 "secs": round(time.time() - t0)})
    json.dump(meta, open(f"{sd}/meta.json", "w"), indent=1)
    print(f"{pid}_{vmap.get(x, x)}: exit codes {det} detected={meta['detected']} ({meta['secs']} s)")
    for l in txt.splitlines():
        if l.startswith("VIOLATION") or l.startswith("  what") or l.startswith("HARNESS") or l.startswith("["):
            print("    " + l[:260])
