#!/bin/sh
# verify_seed.sh <worktree> <diff> <demo.py>  -- confirms a seeded change in a scratch worktree:
# clean tree: demo PASS; with the change: the 45 tests pass and the demo FAILs; leaves the tree clean.
WT=$1; DIFF=$2; DEMO=$3
cd "$WT" || exit 2
git checkout -q -- . || exit 2
export PYTHONPATH="$WT/src"
echo "== clean tree: demo"; /venv/bin/python "$DEMO" > /tmp/vs_clean.out 2>&1; C=$?; tail -2 /tmp/vs_clean.out
git apply "$DIFF" || { echo "PATCH DOES NOT APPLY"; exit 2; }
echo "== with change: tests"; /venv/bin/python -m pytest -q -p no:cacheprovider --timeout=900 2>&1 | tail -1 > /tmp/vs_tests.out; cat /tmp/vs_tests.out
echo "== with change: demo"; /venv/bin/python "$DEMO" > /tmp/vs_seed.out 2>&1; S=$?; tail -2 /tmp/vs_seed.out
git checkout -q -- .
T=$(grep -c "45 passed" /tmp/vs_tests.out)
echo "RESULT clean_exit=$C seeded_exit=$S tests45=$T"
[ "$C" = "0" ] && [ "$S" != "0" ] && [ "$T" = "1" ]
