#!/usr/bin/env python3
"""seed_table.py -- print the markdown table of /verif/seeded/*/meta.json (used for seeded/README.md)."""
import glob
import json
import os
import re

rows = []
for d in sorted(glob.glob("/verif/seeded/C*_*")):
    mp = os.path.join(d, "meta.json")
    if not os.path.exists(mp):
        continue
    m = json.load(open(mp))
    out = open(os.path.join(d, "check_output.txt")).read() if os.path.exists(os.path.join(d, "check_output.txt")) else ""
    what = ""
    cur = None
    first = {}
    for line in out.splitlines():
        mm = re.match(r"## ./check (\w+) --tier quick -> exit (\d+)", line)
        if mm:
            cur = mm.group(1)
        if line.startswith("  what:") and cur and cur not in first:
            first[cur] = line[len("  what:"):].strip()
    ec = m.get("exit_codes", {})
    det = [k for k, v in ec.items() if v == 1]
    what = first.get(det[0], "")[:150] if det else ""
    needs = (m.get("needs") or "").replace("|", "/")
    rows.append((os.path.basename(d), m.get("property"), ", ".join(m.get("files_touched", [])).replace("src/nuspacesim/", ""), " ".join(f"{k}:{v}" for k, v in ec.items()),
                 ", ".join(det) if det else "-", what.replace("|", "/")))
print("| seed | files touched | exit codes of the quick checks run | caught by | first reported violation |")
print("|---|---|---|---|---|")
for r in rows:
    print(f"| {r[0]} | {r[2]} | {r[3]} | {r[4]} | {r[5]} |")
n = len(rows)
c = sum(1 for r in rows if r[4] != "-")
print(f"\n{c} of {n} seeded changes are reported with exit 1 and a VIOLATION line replayed on the real code.")
