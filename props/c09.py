"""C09 -- clouds remove exactly the light emitted below the cloud top at the event site."""
from __future__ import annotations

import os
from fractions import Fraction as Fr

import numpy as _np
import z3

from props import cphot_model as cm
from symnp import core, harness, load
from symnp.arr import SymArray
from symnp.core import PI, SV
from symnp.shim import NP

ID = "C09"
META = {
    "bounds": {
        "quick": "CphotAng.run skeleton with K=3 shower segments x 2 wavelength bins, cloud-top altitude symbolic over the whole real line plus -inf/None; cloud models: None / NoCloud / MonoCloud with symbolic altitude; pressure-map model with a symbolic 3x4 map (all map contents at once), symbolic lat in [-pi/2, pi/2], long in [-pi, pi]; month -> file name for each of the 12 months",
        "thorough": "K=4 segments, 4x5 map, second solver",
    },
    "outside_bounds": ["the numeric content of the photon-yield helpers (C06, not applicable)", "the real 361x576 maps' contents (the lookup is checked for arbitrary contents of a small map; the grids are the code's own linspace)",
                       "float32 rounding of the cloud altitude (np.single is the identity on symbolic values)", "us_std_atm_altitude_from_pressure itself (C19)"],
    "stubs": ["CphotAng helpers -> deterministic uninterpreted functions (see C08)", "atm.us_std_atm_altitude_from_pressure -> uninterpreted function alt_of_p", "astropy.io.fits.open -> recorder of the file name returning a small symbolic map"],
    "assumptions": ["REAL mode", "altitude steps zs increase along the track (valid_arrays)", "a map cell 'contains' a location when the chosen grid node lies within one grid spacing of it in both coordinates (lenient reference: any of the bracketing nodes is accepted)"],
}
LEDGER = {"quick": 815, "thorough": 865}


def cloud_run(K, regime):
    def run(C):
        sp, dg, cp = cm.load_cphot()
        cm.UF.reset()
        beta = core.free_angle("beta")
        alt, E = z3.Real("alt"), z3.Real("Eshow")
        C.assume(beta.t >= 0, beta.t <= 42 * PI / 180, alt >= 0, alt <= 20, E > 0)
        ctop = z3.Real("cloud_top")
        lat, lon = SV(t=z3.Real("lat")), SV(t=z3.Real("lon"))
        seen = []

        def cloudf(la, lo):
            seen.append((la, lo))
            return SV(t=ctop)

        # 1. cloud-free reference run; also tells us the segment altitudes the kernel uses
        o0 = cm.make_cphot(cp, SV.of(_np.float32(525.0)), K)
        d0, c0 = o0.run(beta, SV(t=alt), SV(t=E), lat, lon, None)
        va_args = [a for n, a in o0.calls if n == "valid_arrays"][0]
        zs_arr = cm.UF.table[("valid_arrays", cm._key(va_args))][0]
        z = [e.t for e in zs_arr.a]
        if regime == "below":
            C.assume(ctop < z[0])
        elif regime == "above":
            C.assume(ctop > z[K - 2])
        else:
            C.assume(ctop >= z[0], ctop <= z[K - 2])
        # 2. run with the cloud
        o1 = cm.make_cphot(cp, SV.of(_np.float32(525.0)), K)
        d1, c1 = o1.run(beta, SV(t=alt), SV(t=E), lat, lon, cloudf)
        claims = {"cloud model queried once at the event's (lat, long)": z3.BoolVal(len(seen) == 1 and seen[0][0] is lat and seen[0][1] is lon)}
        D0, C0, D1, C1 = (SV.of(x).term() for x in (d0, c0, d1, c1))
        if regime == "below":
            claims["cloud top below the first segment: density term-identical (bit-identical under every interpretation of the arithmetic) to the cloud-free result"] = z3.BoolVal(D1.eq(D0))
            claims["cloud top below the first segment: Cherenkov angle term-identical to the cloud-free result"] = z3.BoolVal(C1.eq(C0))
            claims["(solver) density equal to cloud-free"] = D1 == D0
            claims["(solver) angle equal to cloud-free"] = C1 == C0
        elif regime == "above":
            claims["cloud top above the penultimate segment: exactly zero density"] = D1 == 0
            claims["cloud top above the penultimate segment: exactly zero angle"] = C1 == 0
        else:
            # 3. reference: the same pipeline, no cloud, with the yield of all segments below the cloud top removed
            o2 = cm.make_cphot(cp, SV.of(_np.float32(525.0)), K)
            real_yield = o2.sphoton_yeild

            def masked_yield(*a):
                y = real_yield(*a)
                for k in range(K):
                    if bool(zs_arr.a[k] < SV(t=ctop)):  # decisions shared with the run above (same terms)
                        for w in range(y.shape[1]):
                            y.a[k, w] = SV(c=Fr(0))
                return y

            o2.sphoton_yeild = masked_yield
            d2, c2 = o2.run(beta, SV(t=alt), SV(t=E), lat, lon, None)
            claims["between: density == pipeline with all light emitted below the cloud top removed"] = SV.of(d2).term() == D1
            claims["between: angle == pipeline with all light emitted below the cloud top removed"] = SV.of(c2).term() == C1
            removed = [k for k in range(K) if bool(zs_arr.a[k] < SV(t=ctop))]
            claims["between: removed segments are exactly those strictly below the cloud top"] = z3.And(
                *[(zs_arr.a[k].t < ctop) if k in removed else z3.Not(zs_arr.a[k].t < ctop) for k in range(K)])
        inputs = {"cloud_top": ctop, "beta": beta.t, "alt": alt}
        return harness.Out(claims=claims, inputs=inputs, skip_defd=lambda tag, where: "definedness of the shower skeleton is C08's obligation" if regime != "below" else None)

    return run


def models_run(kind):
    def run(C):
        atm_stub = type("atm", (), {"us_std_atm_altitude_from_pressure": staticmethod(lambda p: core._opaque("alt_of_p", p))})
        ns = load.load("nuspacesim.simulation.atmosphere.clouds", {"atm": atm_stub})
        Sim = ns["Simulation"]
        if kind == "none":
            model, want = None, core.rv(Fr(0))
        elif kind == "nocloud":
            model, want = Sim.NoCloud(), core.rv(Fr(0))
        else:
            a = z3.Real("cloud_altitude")
            model, want = Sim.MonoCloud.model_construct(altitude=SV(t=a)), a
        cfg = type("Cfg", (), {"simulation": type("S", (), {"cloud_model": model})()})()
        f = ns["CloudTopHeight"](cfg)
        p1 = f(SV(t=z3.Real("lat1")), SV(t=z3.Real("lon1")))
        p2 = f(SV(t=z3.Real("lat2")), SV(t=z3.Real("lon2")))
        claims = {
            "same cloud top everywhere": SV.of(p1).term() == SV.of(p2).term(),
            "cloud top == configured altitude (0 km when there is no cloud)": SV.of(p1).term() == want,
        }
        return harness.Out(claims=claims, inputs={"cloud_altitude": z3.Real("cloud_altitude")})

    return run


def map_run(nlat, nlon):
    def run(C):
        atm_stub = type("atm", (), {"us_std_atm_altitude_from_pressure": staticmethod(lambda p: core._opaque("alt_of_p", p))})
        ns = load.load("nuspacesim.simulation.atmosphere.clouds", {"atm": atm_stub})
        m = _np.empty((nlat, nlon), dtype=object)
        for i in range(nlat):
            for j in range(nlon):
                m[i, j] = SV(t=z3.Real(f"P{i}_{j}"))
                C.assume(z3.Real(f"P{i}_{j}") > 0)
        M = SymArray(m, "float")
        f = ns["altitude_from_pressure_map_v0"](M)
        lat, lon = core.free_angle("lat"), core.free_angle("lon")
        C.assume(lat.t >= -PI / 2, lat.t <= PI / 2, lon.t >= -PI, lon.t <= PI)
        try:
            r = f(lat, lon)
            err = None
        except IndexError as e:
            r, err = None, e
        claims = {"lookup succeeds for every location on the sphere": z3.BoolVal(err is None)}
        if r is not None:
            latd, lond = lat.t * 180 / PI, lon.t * 180 / PI
            dlat, dlon = Fr(180, nlat - 1), Fr(360, nlon - 1)
            alts = []
            for i in range(nlat):
                for j in range(nlon):
                    gi, gj = Fr(-90) + dlat * i, Fr(-180) + dlon * j
                    near = z3.And(latd - core.rv(gi) <= core.rv(dlat), core.rv(gi) - latd <= core.rv(dlat), lond - core.rv(gj) <= core.rv(dlon), core.rv(gj) - lond <= core.rv(dlon))
                    alts.append(z3.And(near, SV.of(r).term() == core._opaque("alt_of_p", m[i, j]).term()))
            claims["value == standard-atmosphere altitude of the map pressure at a node bracketing (degrees(lat), degrees(long))"] = z3.Or(*alts)
        inputs = {"lat": lat.t, "lon": lon.t}
        for i in range(nlat):
            for j in range(nlon):
                inputs[f"P{i}_{j}"] = z3.Real(f"P{i}_{j}")
        return harness.Out(claims=claims, inputs=inputs)

    return run


class _HDUList(list):
    """astropy HDUList stand-in (indexing, context manager, close)"""

    def __enter__(self):
        return self

    def __exit__(self, *a):
        return False

    def close(self):
        pass


def months_run():
    """All twelve months through ONE loaded module, forwards and then backwards (a month must get its own
    map whatever was requested before)."""

    def run(C):
        rec = []

        class FitsStub:
            @staticmethod
            def open(file, *a, **k):
                rec.append(str(file))
                mth = int(os.path.basename(str(file)).split("_")[-1].split(".")[0])
                return _HDUList([type("HDU", (), {"data": _np.full((2, 3), float(mth))})()])

        ns = load.load("nuspacesim.simulation.atmosphere.clouds", {"fits": FitsStub})
        Sim = ns["Simulation"]
        claims = {}
        for rnd, order in (("first pass", range(1, 13)), ("second pass (reverse order)", range(12, 0, -1))):
            for month in order:
                n0 = len(rec)
                cth = ns["CloudTopHeight"](type("Cfg", (), {"simulation": type("S", (), {"cloud_model": Sim.PressureMapCloud(month=month)})()})())
                want = f"nss_map_CloudTopPressure_{month:02d}.v0.fits"
                path = os.path.join(load.REPO_SRC, "nuspacesim", "data", "cloud_maps", want)
                got_map = SymArray(cth.map) if not isinstance(cth.map, SymArray) else cth.map
                claims[f"{rnd}, month {month}: the model holds month {month}'s own map (file {want})"] = z3.BoolVal(
                    all(float(SV.of(e).c) == float(month) for e in got_map.a.reshape(-1)) and (len(rec) == n0 or os.path.basename(rec[-1]) == want))
                if rnd == "first pass":
                    claims[f"month {month}: that file is shipped"] = z3.BoolVal(os.path.exists(path))
        return harness.Out(claims=claims)

    return run


def job_cloud(K, regime, tier):
    return harness.run_job(f"CphotAng.run cloud {regime} (K={K})", cloud_run(K, regime), timeout_ms=120000 if tier == "quick" else 600000, second=(tier == "thorough"))


def job_models(kind, tier):
    return harness.run_job(f"CloudTopHeight({kind})", models_run(kind), timeout_ms=30000)


def job_map(nlat, nlon, tier):
    return harness.run_job(f"pressure-map lookup ({nlat}x{nlon})", map_run(nlat, nlon), timeout_ms=60000 if tier == "quick" else 600000, second=(tier == "thorough"))


def job_eas_align(tier):
    """the event's own latitude / longitude reach the cloud model: the real EAS.__call__ hands the shower kernel
    exactly the in-range events, aligned across beta, altitude, energy, LATITUDE and LONGITUDE (C08's harness, N=3)"""
    from props import c08 as P8

    return P8.job_eas(3, tier)


def job_months(tier):
    return harness.run_job("pressure-map file for months 1..12, twice through one module", months_run(), timeout_ms=10000, twin=False)


def jobs(tier, seed):
    K = 3 if tier == "quick" else 4
    out = [(f"c{r}", "job_cloud", {"K": K, "regime": r, "tier": tier}) for r in ("below", "above", "between")]
    out += [(f"m{k}", "job_models", {"kind": k, "tier": tier}) for k in ("none", "nocloud", "mono")]
    out.append(("map", "job_map", {"nlat": 3 if tier == "quick" else 4, "nlon": 5 if tier == "quick" else 6, "tier": tier}))  # (as in the shipped 361x576 maps: more longitude than latitude nodes, by more than one cell)
    out.append(("months", "job_months", {"tier": tier}))
    out.append(("eas_align", "job_eas_align", {"tier": tier}))
    return out


def replay(v):
    import numpy as np

    job, ob = v.get("job", ""), v["obligation"]
    m = {k: x for k, x in (v.get("model") or {}).items() if x is not None}
    if job.startswith("EAS.__call__"):
        from props import c08 as P8

        return P8.replay(v)
    if job.startswith("pressure-map lookup"):
        from nuspacesim.simulation.atmosphere.clouds import altitude_from_pressure_map_v0
        from nuspacesim.simulation.eas_optical import atmospheric_models as atm

        # the shipped January map and the model's location
        from nuspacesim.config import Simulation
        from nuspacesim.simulation.atmosphere.clouds import extract_fits_cloud_pressure_map_v0

        mp = extract_fits_cloud_pressure_map_v0(Simulation.PressureMapCloud(month=1))
        f = altitude_from_pressure_map_v0(mp)
        lat, lon = m.get("lat", 0.6), m.get("lon", 1.9)
        lat, lon = float(np.clip(lat, -np.pi / 2, np.pi / 2)), float(np.clip(lon, -np.pi, np.pi))
        try:
            got = float(f(lat, lon))
        except Exception as ex:
            return {"reproduced": True, "key": "pressure-map lookup raises", "detail": f"f({lat}, {lon}) raised {type(ex).__name__}: {ex}"}
        lats, lons = np.linspace(-90, 90, mp.shape[0]), np.linspace(-180, 180, mp.shape[1])
        i, j = np.searchsorted(lats, np.degrees(lat)), np.searchsorted(lons, np.degrees(lon))
        cands = [float(atm.us_std_atm_altitude_from_pressure(mp[a, b])) for a in (max(i - 1, 0), min(i, mp.shape[0] - 1)) for b in (max(j - 1, 0), min(j, mp.shape[1] - 1))]
        if not any(abs(got - c) <= 1e-9 * max(1.0, abs(c)) for c in cands):
            # second witness: the value must change with longitude somewhere along this latitude
            return {"reproduced": True, "key": "pressure-map lookup does not use the cell containing (degrees(lat), degrees(long))",
                    "detail": f"lat={lat} rad, long={lon} rad: lookup gave {got} km, bracketing map nodes give {cands}"}
        return {"reproduced": False, "key": None, "detail": "real lookup returns a bracketing node's altitude at the model location"}
    if job.startswith("CphotAng.run cloud"):
        return _replay_cloud_regimes()
    if job.startswith("pressure-map file for months"):
        import warnings
        from importlib.resources import as_file, files

        from astropy.io import fits

        from nuspacesim.config import Simulation
        from nuspacesim.simulation.atmosphere.clouds import extract_fits_cloud_pressure_map_v0

        for rnd in (1, 2):
            for month in range(1, 13):
                with warnings.catch_warnings():
                    warnings.simplefilter("ignore")
                    got = np.array(extract_fits_cloud_pressure_map_v0(Simulation.PressureMapCloud(month=month)))
                    with as_file(files("nuspacesim.data.cloud_maps") / f"nss_map_CloudTopPressure_{month:02d}.v0.fits") as fpath:
                        with fits.open(fpath) as h:
                            want = np.array(h[0].data)
                if got.shape != want.shape or not np.array_equal(got, want, equal_nan=True):
                    return {"reproduced": True, "key": "pressure map of a month is not that month's shipped file",
                            "detail": f"pass {rnd}, month {month}: extract_fits_cloud_pressure_map_v0 returned a map that differs from nss_map_CloudTopPressure_{month:02d}.v0.fits (months requested in order 1..12 in one process)"}
        return {"reproduced": False, "key": None, "detail": "all 12 months, two passes: the shipped file's data"}
    return {"reproduced": False, "key": None, "detail": "structural / skeleton claim (no numeric replay)"}


def _replay_cloud_regimes():
    """The three regimes on the real float32 kernel, for a few showers; the reference for 'in between' is the
    same real object with the yield of the segments strictly below the cloud top zeroed and no cloud model."""
    import warnings

    import numpy as np

    from nuspacesim.simulation.eas_optical.cphotang import CphotAng

    warnings.simplefilter("ignore")
    for b, alt, E in ((0.2, 2.0, 1.0), (0.05, 0.5, 3.0), (0.5, 6.0, 0.3), (0.1, 12.0, 1.0)):
        o = CphotAng(525.0)
        cap = {}
        va = o.valid_arrays

        def rec(*a, _va=va):
            r = _va(*a)
            cap["zs"] = np.array(r[0])
            return r

        o.valid_arrays = rec
        free = o.run(b, alt, E, 0.3, 0.4, None)
        zs = cap["zs"]
        if len(zs) < 4:
            continue
        at = lambda h: o.run(b, alt, E, 0.3, 0.4, lambda la, lo: h)  # noqa
        below = at(float(zs[0]) - 1e-3)
        if not (np.array_equal(below[0], free[0]) and np.array_equal(below[1], free[1])):
            return {"reproduced": True, "key": "cloud top below the first segment changes the result", "detail": f"beta={b}, altDec={alt}: cloud-free {free}, cloud at {float(zs[0]) - 1e-3} km gives {below}"}
        for h in (0.5 * (float(zs[-2]) + float(zs[-1])), float(zs[-1]) + 1.0):
            r = at(h)
            if not (r[0] == 0 and r[1] == 0):
                return {"reproduced": True, "key": "cloud top above the penultimate segment does not give exactly zero",
                        "detail": f"beta={b}, altDec={alt}: segments end at ... {zs[-2]}, {zs[-1]} km; cloud top {h} km gives {r} instead of (0, 0)"}
        for k in (len(zs) // 3, len(zs) // 2, len(zs) - 3):
            h = 0.5 * (float(zs[k]) + float(zs[k + 1]))
            got = at(h)
            sy = o.sphoton_yeild

            def cut(*a, _sy=sy, _h=h):
                y = _sy(*a)
                y[np.asarray(a[4]) < _h, ...] = 0
                return y

            o.sphoton_yeild = cut
            want = o.run(b, alt, E, 0.3, 0.4, None)
            o.sphoton_yeild = sy
            if not (np.array_equal(got[0], want[0]) and np.array_equal(got[1], want[1])):
                return {"reproduced": True, "key": "cloud top inside the shower: result differs from the model with the light below the cloud removed",
                        "detail": f"beta={b}, altDec={alt}, cloud top {h} km: {got} vs {want}"}
    return {"reproduced": False, "key": None, "detail": "real kernel: three regimes as stated for the probe showers"}


def validate(seed, tier):
    """The map lookup at concrete locations: encoding (small concrete map through the shim) vs the real function."""
    import numpy as np

    from nuspacesim.simulation.atmosphere.clouds import altitude_from_pressure_map_v0
    from symnp.core import Ctx

    rng = np.random.default_rng(seed)
    ok = 0
    for _ in range(40):
        mp = rng.uniform(1e4, 1e5, (4, 5))
        lat, lon = float(rng.uniform(-1.5, 1.5)), float(rng.uniform(-3.1, 3.1))
        real = altitude_from_pressure_map_v0(mp)
        import nuspacesim.simulation.atmosphere.clouds as cl

        old = cl.atm.us_std_atm_altitude_from_pressure
        cl.atm.us_std_atm_altitude_from_pressure = lambda p: p
        try:
            want = float(real(lat, lon))
        finally:
            cl.atm.us_std_atm_altitude_from_pressure = old
        C = Ctx(prune=False)
        C.shadow = {"pi": np.pi}
        Ctx.current = C
        try:
            atm_stub = type("atm", (), {"us_std_atm_altitude_from_pressure": staticmethod(lambda p: p)})
            ns = load.load("nuspacesim.simulation.atmosphere.clouds", {"atm": atm_stub})
            got = ns["altitude_from_pressure_map_v0"](SymArray(mp))(SV(c=core.lit_fr(lat)), SV(c=core.lit_fr(lon)))
            if abs(float(SV.of(got).c) - want) > 1e-9 * abs(want):
                raise core.HarnessError(f"map lookup: shim {got} vs real {want} at {lat},{lon}")
        finally:
            Ctx.current = None
        ok += 1
    return ok


MANIFEST_ENTRY = {
    "level_text": "Bounded symbolic execution of the real control skeleton of CphotAng.run with a symbolic cloud-top altitude (helpers uninterpreted, K=3/4 segments): below the first segment the outputs are term-identical to the cloud-free run (hence bit-identical under any interpretation of the arithmetic), above the penultimate segment exactly (0,0), in between equal to the cloud-free pipeline with the yield of every segment strictly below the cloud top removed; the real CloudTopHeight dispatch and closures for None/NoCloud/MonoCloud (constant in location); the real pressure-map lookup on a symbolic small map for every location on the sphere (value must be the standard-atmosphere altitude of a node bracketing degrees(lat), degrees(long) on the code's own grids); month -> file name for all 12 months.",
    "level_note": "Includes C08's EAS.__call__ job with N=3 (the event's own latitude and longitude reach the cloud model: the five kernel inputs are aligned). REAL arithmetic; photon-yield helpers and the pressure->altitude conversion are uninterpreted functions; small symbolic map (3x5 quick, 4x6 thorough: more longitude than latitude nodes, like the shipped maps) instead of the 361x576 shipped maps; lenient cell convention (any bracketing node).",
    "technique": "symbolic execution of the real NumPy source + z3 qfnra-nlsat; term identity for the bit-identical clause",
}
