"""C12 -- neutrino energy spectrum sampling is exact and normalised."""
from __future__ import annotations

import math
from fractions import Fraction as Fr

import z3

from symnp import core, harness, load
from symnp.arr import SymArray
from symnp.core import SV

ID = "C12"
MOD = "nuspacesim.simulation.spectra.spectra"

META = {
    "bounds": {
        "quick": "N in {0,1,2} events; index p in [0,4] (incl. 1), 6 <= lower < upper <= 12, u in [0,1]; all symbolic reals",
        "thorough": "N in {0,1,2,3}; same symbolic ranges; second solver on every claim",
    },
    "outside_bounds": [
        "IEEE rounding (REAL mode): an excursion of logE above upper_bound at u=1 through libm pow/log10 rounding is not decided",
        "N > 3 (the code is elementwise; no reduction over events)",
        "callable (user-supplied) spectra",
    ],
    "stubs": ["np.random.uniform -> fresh symbolic draws in [low, high)", "10**x, log10, x**y -> Ackermannised uninterpreted functions with inverse/monotonicity axioms"],
    "assumptions": [
        "REAL mode: exact real arithmetic on the implemented formulas; float literals read as rationals",
        "draws u are assumed <= 1 (the generator is called with high = 1+eps to make the interval closed; the property quantifies over [0,1])",
        "exp10/log10/pow are strictly monotone mutually inverse real functions (sound axiom instances only)",
    ],
}
LEDGER = {"quick": 30, "thorough": 45}


def _ns():
    return load.load(MOD)


def _spec_power(ns, p, lo, hi):
    Sim = ns["Simulation"]
    return Sim.PowerSpectrum.model_construct(index=p, lower_bound=lo, upper_bound=hi)


def power_run(N, fixed_index=None):
    def run(C):
        ns = _ns()
        if fixed_index is None:
            p = z3.Real("index")
            C.assume(p >= 0, p <= 4)
            psv = SV(t=p)
        else:
            psv = SV(c=Fr(fixed_index))
            p = psv.term()
        lo, hi = z3.Real("lower_bound"), z3.Real("upper_bound")
        C.assume(lo >= 6, lo < hi, hi <= 12)
        spec = _spec_power(ns, psv, SV(t=lo), SV(t=hi))
        stored = {}

        def store(names, cols):
            stored.update(dict(zip(names, cols)))

        logE, norm, wsum = ns["Spectra"](type("Cfg", (), {"simulation": type("S", (), {"spectrum": spec})()})())(N, store=store)
        us = [t for (_k, _w, t) in C.draws]
        for u in us:
            C.assume(u <= 1)
        claims = {}
        claims["length == N"] = z3.BoolVal(len(logE) == N and len(us) == N)
        claims["stored column log_e_nu is the returned array"] = z3.BoolVal("log_e_nu" in stored and stored["log_e_nu"] is logE)
        mp = SV(c=Fr(1)) - psv
        a_mp = (10 ** SV(t=lo)) ** mp
        b_mp = (10 ** SV(t=hi)) ** mp
        for i in range(N):
            e = logE[i]
            claims[f"lower <= logE[{i}]"] = (e >= SV(t=lo)).term()
            claims[f"logE[{i}] <= upper"] = (e <= SV(t=hi)).term()
            E_mp = (10 ** e) ** mp
            if fixed_index == 1:
                # dN/dE ~ 1/E : CDF = (logE - lo)/(hi - lo)
                claims[f"inverse CDF (index 1) [{i}]"] = (e - SV(t=lo) == SV(t=us[i]) * (SV(t=hi) - SV(t=lo))).term()
            else:
                claims[f"inverse CDF: (E^(1-p)-a^(1-p)) == u (b^(1-p)-a^(1-p)) [{i}]"] = z3.Implies(
                    p != 1, (E_mp - a_mp == SV(t=us[i]) * (b_mp - a_mp)).term())
        for i in range(N):
            for j in range(N):
                if i < j:
                    claims[f"monotone: u{i}<u{j} => logE{i}<logE{j}"] = z3.Implies(us[i] < us[j], (logE[i] < logE[j]).term())
        claims["spec_norm * sum_spec_weights == 1"] = (SV.of(norm) * SV.of(wsum) == 1).term()
        inputs = {"index": psv, "lower_bound": SV(t=lo), "upper_bound": SV(t=hi)}
        for i, u in enumerate(us):
            inputs[f"u{i}"] = u
        return harness.Out(claims=claims, inputs=inputs, observe={"logE": logE, "norm": norm, "wsum": wsum})

    return run


def mono_run(N):
    def run(C):
        ns = _ns()
        Sim = ns["Simulation"]
        e = z3.Real("log_nu_energy")
        spec = Sim.MonoSpectrum.model_construct(log_nu_energy=SV(t=e))
        logE, norm, wsum = ns["Spectra"](type("Cfg", (), {"simulation": type("S", (), {"spectrum": spec})()})())(N)
        claims = {"length == N": z3.BoolVal(len(logE) == N), "no random draw": z3.BoolVal(len(C.draws) == 0)}
        for i in range(N):
            claims[f"logE[{i}] == configured"] = (logE[i] == SV(t=e)).term()
        claims["spec_norm * sum_spec_weights == 1"] = (SV.of(norm) * SV.of(wsum) == 1).term()
        return harness.Out(claims=claims, inputs={"log_nu_energy": e})

    return run


def job_power(N, tier, fixed_index=None):
    nm = f"power(N={N}{'' if fixed_index is None else ',index=%s' % fixed_index})"
    return harness.run_job(nm, power_run(N, fixed_index), timeout_ms=60000 if tier == "quick" else 600000, second=(tier == "thorough"))


def job_mono(N, tier):
    return harness.run_job(f"mono(N={N})", mono_run(N), timeout_ms=60000, second=(tier == "thorough"))


def jobs(tier, seed):
    Ns = [0, 1, 2] if tier == "quick" else [0, 1, 2, 3]
    out = []
    for n in Ns:
        out.append((f"power{n}", "job_power", {"N": n, "tier": tier}))
        out.append((f"mono{n}", "job_mono", {"N": n, "tier": tier}))
        if n >= 1:
            out.append((f"power{n}_index1", "job_power", {"N": n, "tier": tier, "fixed_index": 1}))
    return out


# ---------------------------------------------------------------------------------
# replay on the real code (real NumPy)
# ---------------------------------------------------------------------------------
def _real_sample(index, lo, hi, us):
    import numpy as np
    from unittest import mock

    from nuspacesim.config import NssConfig, Simulation
    from nuspacesim.simulation.spectra.spectra import Spectra

    cfg = NssConfig()
    cfg.simulation.spectrum = Simulation.PowerSpectrum(index=index, lower_bound=lo, upper_bound=hi)
    with mock.patch("numpy.random.uniform", lambda *a, **k: np.asarray(us, dtype=float)):
        with np.errstate(all="ignore"):
            return Spectra(cfg)(len(us))


def replay(v):
    import numpy as np

    m = v.get("model") or {}
    job = v.get("job", "")
    if not job.startswith("power"):
        return {"reproduced": False, "key": None, "detail": "no replay for this job"}
    idx, lo, hi = m.get("index", 1.0), m.get("lower_bound"), m.get("upper_bound")
    us = [m[k] for k in sorted(k for k in m if k.startswith("u") and k[1:].isdigit())]
    if "index=1" in job:
        idx = 1.0
    try:
        logE, norm, w = _real_sample(idx, lo, hi, us)
    except ZeroDivisionError as e:
        return {"reproduced": True, "key": "spectrum: ZeroDivisionError at index == 1" if idx == 1 else f"spectrum: ZeroDivisionError",
                "detail": f"Spectra(PowerSpectrum(index={idx}, lower_bound={lo}, upper_bound={hi}))({len(us)}) raised ZeroDivisionError: {e}"}
    except Exception as e:
        return {"reproduced": True, "key": f"spectrum: {type(e).__name__}", "detail": f"raised {type(e).__name__}: {e} for index={idx} lo={lo} hi={hi} u={us}"}
    logE = np.asarray(logE, dtype=float)
    tol = 1e-9
    ob = v["obligation"]
    bad = None
    if not np.all(np.isfinite(logE)) or not math.isfinite(norm) or not math.isfinite(w):
        bad = f"non-finite output logE={logE} norm={norm} w={w}"
    elif "lower <=" in ob and np.any(logE < lo - tol):
        bad = f"logE={logE} below lower bound {lo}"
    elif "<= upper" in ob and np.any(logE > hi + tol):
        bad = f"logE={logE} above upper bound {hi}"
    elif "inverse CDF" in ob:
        mp = 1 - idx
        for e, u in zip(logE, us):
            if idx == 1:
                lhs, rhs = (e - lo), u * (hi - lo)
            else:
                lhs = (10.0**e) ** mp - (10.0**lo) ** mp
                rhs = u * ((10.0**hi) ** mp - (10.0**lo) ** mp)
            if abs(lhs - rhs) > 1e-7 * (abs(lhs) + abs(rhs) + 1e-300):
                bad = f"inverse CDF mismatch lhs={lhs} rhs={rhs} at u={u}"
    elif "monotone" in ob:
        o = np.argsort(us)
        if np.any(np.diff(logE[o]) < -tol):
            bad = f"not monotone: u={us} logE={logE}"
    elif "spec_norm" in ob and abs(norm * w - 1) > 1e-9:
        bad = f"norm*weights={norm*w}"
    elif "defined" in ob:
        bad = None
    if bad:
        return {"reproduced": True, "key": "spectrum: " + ob.split("/", 1)[-1].split("[")[0].strip(), "detail": bad}
    return {"reproduced": False, "key": None, "detail": f"real code gave logE={logE.tolist()} norm={norm} w={w}: predicate holds"}


def validate(seed, tier):
    """Translator validation: the encoding evaluated at concrete points must agree with
    the unpatched module run with real NumPy."""
    N = 3

    def sampler(rng):
        p = float(rng.choice([0.0, 0.5, 2.0, 2.5, 3.0, 4.0, rng.uniform(0, 4)]))
        lo = float(rng.uniform(6, 11))
        hi = float(rng.uniform(lo + 0.1, 12))
        v = {"index": p, "lower_bound": lo, "upper_bound": hi}
        for i in range(N):
            v[f"draw{i+1}"] = float(rng.uniform(0, 1))
        return v

    def real(v):
        logE, norm, w = _real_sample(v["index"], v["lower_bound"], v["upper_bound"], [v[f"draw{i+1}"] for i in range(N)])
        return {"logE": logE, "norm": norm, "wsum": w}

    return harness.validate(power_run(N), sampler, real, 50, seed, rel=1e-9)

MANIFEST_ENTRY = {
    "level_text": "Bounded symbolic execution of the real energy_spectra/spec_norm/sum_spec_weights/Spectra.__call__ source with the spectral index, both bounds and every uniform draw symbolic; each clause (range, inverse-CDF identity, monotonicity, norm*weights=1, definedness of every division/log incl. index==1) is an nlsat verdict over all reals in the stated ranges for N<=2 (quick) / N<=3 (thorough) events; counterexamples are replayed on the unpatched module.",
    "level_note": "REAL arithmetic (IEEE rounding outside the claim); exp10/log10/pow Ackermannised with sound inverse/monotonicity axiom instances; np.random.uniform stubbed by symbolic draws assumed <= 1; trusted: z3 nlsat, the shim (validated concolically against real NumPy at 50 points per run).",
    "technique": "symbolic execution of the real NumPy source + z3 qfnra-nlsat (Ackermannised exp/log/pow)",
}
