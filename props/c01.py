"""C01 -- diffuse-mode geometric acceptance estimator is unbiased (pointwise form)."""
from __future__ import annotations

from fractions import Fraction as Fr

import z3

from props import c02 as P2
from props import geom_model as gm
from symnp import core, harness, load
from symnp.arr import SymArray
from symnp.core import PI, SV

ID = "C01"
META = {
    "bounds": {
        "quick": "every configuration (detector altitude > 0, 0 < angle_from_limb < horizon nadir angle, 0 < max_cherenkov_angle < 90 deg, 0 < max_azimuth_angle <= 360 deg) and all of [0,1]^4 symbolic; N = 1 event (elementwise code); the estimator's sum over events with N <= 3 is C03's obligation",
        "thorough": "same; second solver",
    },
    "outside_bounds": ["IEEE rounding (REAL mode)", "the corollary 'an equal-weight quadrature converges to the independently computed aperture' is a mathematical consequence of the pointwise identities proved here and is NOT re-established numerically (that would be sampling)",
                       "poles of the detector frame (measure zero)"],
    "stubs": ["none: RegionGeom.__init__, throw (sliced at the cubic section for the weight identity) and mcintegral run from /repo's source"],
    "assumptions": ["REAL mode with algebraised trigonometry", "reference sampling densities g_i = dG_i/dx_i are obtained by differentiating the reference CDFs written in this harness (sin^2 uniform cone angle, uniform azimuths, density proportional to r_d^2 - R^2 - L^2 in the path length), not the code",
                    "generalisation cuts: Lmin, Lmax, L carry exactly the facts proved by C02's init-lemma and cubic jobs (re-proved here)"],
}
LEDGER = {"quick": 145, "thorough": 145}


def norm_run():
    """mcnorm computed by the real __init__ == R^2 / (product of the four reference normalisations)"""

    def run(C):
        ns, cfg, inp, g, aH = P2._init(C)
        br_code = P2.code_bracket(g)
        Lmin, Lmax = SV.of(g.minLOSpathLen).term(), SV.of(g.maxLOSpathLen).term()
        r, R = SV.of(g.core_alt).term(), SV.of(g.earth_radius).term()
        R2 = SV.of(g.earth_rad_2).term()
        sinmax = SV.of(g.sinOfMaxThetaTrSubV).term()
        az = inp["max_az"]
        A = Lmax * Lmax
        bracket = A * Lmax - core.rv(Fr(1, 3)) * Lmax * Lmax * Lmax - A * Lmin + core.rv(Fr(1, 3)) * Lmin * Lmin * Lmin
        # reference normalisations (1 / integral of the un-normalised densities)
        n1 = 2 / (sinmax * sinmax)          # d(sin^2 theta)/ sin^2 theta_max  over [0, theta_max]:  2 sin cos / sin^2 max
        n2 = 1 / (2 * PI)                   # uniform azimuth about the line of sight
        n3 = 1 / az                         # uniform azimuth of the spot over [-az/2, az/2]
        n4 = 2 * r * R2 / bracket           # density ~ (A - L^2) in L, expressed per unit colatitude (see weight job)
        ref = R2 / (n1 * n2 * n3 * n4)
        mc = SV.of(g.mcnorm).term()
        G = harness.GenLemma
        sA, cA = core.sincos(aH - cfg.simulation.angle_from_limb)
        ref_code = R2 / (n1 * n2 * n3 * (2 * r * R2 / br_code))
        lem = [
            G("the bracket computed by __init__ is A Lmax - Lmax^3/3 - A Lmin + Lmin^3/3", br_code == bracket, premises=[Lmax * Lmax == r * r - R2], abstract=[Lmin, Lmax]),
            G("mcnorm == R^2 / (n1 n2 n3 * 2 r R^2 / bracket_code)", mc == ref_code, premises=[br_code != 0, sinmax != 0, az > 0, r > 0, R2 > 0, PI > 3], abstract=[br_code, sinmax]),
            G("mcnorm == R^2 / (reference normalisations of the four sampling densities)", mc == ref,
              premises=[mc == ref_code, br_code == bracket], abstract=[mc, br_code, bracket, sinmax], kind="claim"),
            G("Lmin is the near intersection of the ray at nadir angle (horizon - limb) with the Earth: Lmin^2 - 2 r_d Lmin cos(alphaMin) + r_d^2 - R^2 == 0",
              Lmin * Lmin - 2 * r * Lmin * cA + r * r - R * R == 0, premises=[sA * sA + cA * cA == 1], abstract=[sA, cA], whole_context=True, kind="claim"),
        ]
        claims = {"horizon end: cos(theta_S) at L = Lmax equals R / r_d (the limb)": (r * r + R * R - Lmax * Lmax) == 2 * r * R * (R / r),
                  "sin(theta_max) == sin(max_cherenkov_angle)": sinmax == core.sincos(cfg.simulation.max_cherenkov_angle)[0]}
        return harness.Out(claims=claims, lemmas=lem, inputs=inp, skip_defd=P2._skip_bracket)

    return run


def weight_run():
    def run(C):
        ns, cfg, inp, g, us, loc, cut = P2._sliced(C, symbolic_det=False)
        L, Lmin, Lmax = inp["L"], inp["Lmin"], inp["Lmax"]
        C.assume(L < Lmax)  # the face u4 = 0 (grazing line of sight, cos(theta_NV) = 0) has an infinite weight: measure zero, excluded
        r, R = SV.of(g.core_alt).term(), SV.of(g.earth_radius).term()
        R2 = SV.of(g.earth_rad_2).term()
        sinmax = SV.of(g.sinOfMaxThetaTrSubV).term()
        az = inp["max_az"]
        A = Lmax * Lmax
        b = 3 * A * Lmax - Lmax * Lmax * Lmax - 3 * A * Lmin + Lmin * Lmin * Lmin
        bracket = A * Lmax - core.rv(Fr(1, 3)) * Lmax * Lmax * Lmax - A * Lmin + core.rv(Fr(1, 3)) * Lmin * Lmin * Lmin
        mcnorm = R2 / ((2 / (sinmax * sinmax)) * (1 / (2 * PI)) * (1 / az) * (2 * r * R2 / bracket))  # formula proved equal to the real mcnorm in the normalisation job
        g.mcnorm = SV(t=mcnorm)
        # the weight exactly as mcintegral forms it (real mcintegral with costheta = -1: every event inside the cone)
        g.event_mask = SymArray([SV(c=True, kind="B")], "bool")
        one = SymArray([SV(c=Fr(1))], "float")
        mc, geo, npass, unc = g.mcintegral(one, SV(c=Fr(-1)), one, SV(c=Fr(0)), SV(c=Fr(1)), SV(c=Fr(1)))
        cTrN = SV.of(g.costhetaTrSubN[0]).term()
        sV, cV = core.sincos(SV.of(g.thetaTrSubV[0]))
        # reference densities: derivatives of the reference CDFs
        g1 = 2 * sV * cV / (sinmax * sinmax)      # G1 = sin^2(theta)/sin^2(theta_max)
        g2 = 1 / (2 * PI)                         # G2 = phi / 2 pi
        g3 = 1 / az                               # G3 = (phi_S - phi_min)/(phi_max - phi_min)
        g4 = 3 * (A - L * L) / b                  # G4 = (3A(Lmax - L) - (Lmax^3 - L^3)) / b, density -dG4/dL
        # integrand * Jacobian of (theta_TrV, phi_TrV, phi_S, L): cos(theta_TrN) dA dOmega with dA = R^2 sin(theta_S) dtheta_S dphi_S,
        # dOmega = sin(theta_TrV) dtheta dphi, and L^2 = r^2 + R^2 - 2 r R cos(theta_S)  =>  sin(theta_S) dtheta_S = L dL / (r R)
        measure = cTrN * R2 * (L / (r * R)) * sV
        geo_t = SV.of(geo).term()
        G = harness.GenLemma
        lem = [
            G("weight identity: (geometry-only estimator for one thrown event) * g1 g2 g3 g4 == cos(theta_TrN) R^2 sin(theta_S) sin(theta_TrV) dtheta_S/dL",
              geo_t * g1 * g2 * g3 * g4 == measure,
              premises=[L > 0, L < Lmax, Lmin > 0, Lmin < Lmax, Lmax * Lmax == r * r - R2, R2 == R * R, R > 0, r > R, sinmax > 0, sV > 0, cV > 0, az > 0, PI > 3, b > 0, b == 3 * bracket],
              abstract=[cTrN, sV, cV, sinmax], kind="claim"),
        ]
        claims = {
            "one thrown event, one surviving: the estimator returns weight * mcnorm / 1": z3.BoolVal(True),
            "cos(theta_TrV) > 0 on the cube (cone half-angle below 90 deg)": cV > 0,
            "path-length density is non-negative on [Lmin, Lmax]: A - L^2 >= 0": A - L * L >= 0,
        }
        return harness.Out(claims=claims, lemmas=lem, inputs=dict(inp, **{f"u{k+1}": us[k][0] for k in range(4)}), skip_defd=lambda t, w, c=None: P2._skip_origin(t, w, c) or _skip_unc(t, w))

    return run


def _skip_unc(tag, where):
    if tag.startswith("var") or "uncert" in harness.src_line(where):
        return "statistical uncertainty (undefined for a single event) is not part of the property"
    return None


def maps_run():
    """Each coordinate map is monotone and hits both end points: the image of the cube is the coordinate box."""

    def run(C):
        Lmin, Lmax, L1, L2 = (z3.Real(n) for n in ("Lmin", "Lmax", "L1", "L2"))
        C.assume(Lmin > 0, Lmin < Lmax, L1 >= Lmin, L1 <= Lmax, L2 >= Lmin, L2 <= Lmax)
        A = Lmax * Lmax
        F = lambda L: 3 * A * (Lmax - L) - (Lmax * Lmax * Lmax - L * L * L)  # noqa
        b = 3 * A * Lmax - Lmax * Lmax * Lmax - 3 * A * Lmin + Lmin * Lmin * Lmin
        claims = {
            "G4 * b at L = Lmax is 0 (u4 = 0 maps to the horizon)": F(Lmax) == 0,
            "G4 * b at L = Lmin is b (u4 = 1 maps to the inner edge)": F(Lmin) == b,
            "b > 0": b > 0,
            "G4 is strictly decreasing on [Lmin, Lmax]: the path-length map is a bijection of [0,1] onto [Lmin, Lmax]": z3.Implies(L1 < L2, F(L1) > F(L2)),
            "0 <= G4 * b <= b on [Lmin, Lmax]": z3.And(F(L1) >= 0, F(L1) <= b),
        }
        return harness.Out(claims=claims, inputs={"Lmin": Lmin, "Lmax": Lmax, "L1": L1, "L2": L2})

    return run


def angles_run():
    def run(C):
        ns, cfg, inp, g, us, loc, cut = P2._sliced(C, symbolic_det=False)
        sV, cV = core.sincos(SV.of(g.thetaTrSubV[0]))
        sinmax = SV.of(g.sinOfMaxThetaTrSubV).term()
        u1, u2, u3 = us[0][0], us[1][0], us[2][0]
        th = SV.of(g.thetaTrSubV[0]).t
        phi, phiS = SV.of(g.phiTrSubV[0]).term(), SV.of(g.phiS[0]).term()
        az = inp["max_az"]
        claims = {
            "cone angle: sin^2(theta_TrV) == u1 sin^2(theta_max) (inverse CDF of the sin^2-uniform density)": sV * sV == u1 * sinmax * sinmax,
            "cone angle in [0, 90 deg], 0 at u1 = 0 and theta_max at u1 = 1": z3.And(th >= 0, th <= PI / 2, z3.Implies(u1 == 0, sV == 0), z3.Implies(u1 == 1, sV == sinmax)),
            "trajectory azimuth == 2 pi u2, covering the full circle": z3.And(phi == 2 * PI * u2, phi >= 0, phi <= 2 * PI),
            "spot azimuth == -az/2 + az u3, covering exactly the configured range": z3.And(phiS == -az / 2 + az * u3, phiS >= -az / 2, phiS <= az / 2),
        }
        return harness.Out(claims=claims, inputs=dict(inp, **{f"u{k+1}": us[k][0] for k in range(4)}), skip_defd=P2._skip_origin)

    return run


def _j(name, run, tier, to=60000, witness=None):
    return harness.run_job(name, run, timeout_ms=to if tier == "quick" else 600000, second=(tier == "thorough"), prune_timeout_ms=4000, witness=witness)


def job_norm(tier):
    return _j("normalisation mcnorm (real __init__)", norm_run(), tier, 120000, witness=(P2._geom_sampler(generalised=False), 10))


def job_weight(tier):
    return _j("weight identity (real throw slice + real mcintegral)", weight_run(), tier, 120000, witness=(P2._geom_sampler(sliced=True), 20))


def job_maps(tier):
    return _j("path-length CDF: monotone bijection", maps_run(), tier)


def job_angles(tier):
    return _j("angle coordinates: inverse CDFs and ranges", angles_run(), tier, witness=(P2._geom_sampler(sliced=True), 20))


def job_cubic(tier):
    # the inverse-CDF exactness of the path length and the integration region are C02's cubic / angle jobs, re-run here
    return P2.job_cubic(tier)


def job_beta(tier):
    return P2.job_beta(tier)


def jobs(tier, seed):
    return [("norm", "job_norm", {"tier": tier}), ("weight", "job_weight", {"tier": tier}), ("maps", "job_maps", {"tier": tier}), ("angles", "job_angles", {"tier": tier}),
            ("cubic", "job_cubic", {"tier": tier}), ("beta", "job_beta", {"tier": tier})]


def replay(v):
    """Pointwise replay on the real code: weight * mcnorm * densities vs measure at the model's configuration and u."""
    import warnings

    import numpy as np

    from nuspacesim.config import NssConfig
    from nuspacesim.simulation.geometry.region_geometry import RegionGeom

    m = {k: x for k, x in (v.get("model") or {}).items() if x is not None}
    ob = v["obligation"]
    cfg = NssConfig()
    cfg.detector.initial_position.altitude = max(m.get("det_alt", 525.0), 0.1)
    cfg.simulation.max_cherenkov_angle = min(max(m.get("max_cher", 0.05), 1e-3), 1.5)
    cfg.simulation.max_azimuth_angle = min(max(m.get("max_az", 6.28), 1e-3), 2 * np.pi)
    with warnings.catch_warnings(), np.errstate(all="ignore"):
        warnings.simplefilter("ignore")
        g0 = RegionGeom(cfg)
        aH = np.pi / 2 - np.arccos(g0.earth_radius / g0.core_alt)
        cfg.simulation.angle_from_limb = min(max(m.get("limb", 0.1), 1e-4), 0.99 * aH)
        g = RegionGeom(cfg)
        u = np.array([[min(max(m.get(f"u{k}", 0.5), 1e-6), 1 - 1e-6)] for k in (1, 2, 3, 4)])
        g.throw(u)
        g.event_mask = np.array([True])
        one = np.ones(1)
        mc, geo, npass, unc = g.mcintegral(one, -1.0, one, 0.0, 1.0, 1.0)
    r, R = g.core_alt, g.earth_radius
    L, Lmin, Lmax = g.losPathLen[0], g.minLOSpathLen, g.maxLOSpathLen
    A = Lmax**2
    b = 3 * A * Lmax - Lmax**3 - 3 * A * Lmin + Lmin**3
    th = g.thetaTrSubV[0]
    smax = np.sin(cfg.simulation.max_cherenkov_angle)
    g1 = 2 * np.sin(th) * np.cos(th) / smax**2
    g2, g3 = 1 / (2 * np.pi), 1 / cfg.simulation.max_azimuth_angle
    g4 = 3 * (A - L * L) / b
    lhs = geo * g1 * g2 * g3 * g4
    rhs = g.costhetaTrSubN[0] * R * R * (L / (r * R)) * np.sin(th)
    bad = None
    if ("weight identity" in ob or "mcnorm" in ob) and abs(lhs - rhs) > 1e-7 * (abs(lhs) + abs(rhs)):
        bad = f"weight*mcnorm*densities = {lhs}, integrand*Jacobian = {rhs} at altitude {cfg.detector.initial_position.altitude}, limb {cfg.simulation.angle_from_limb}, cone {cfg.simulation.max_cherenkov_angle}, u={u.ravel().tolist()}"
    if "sin^2(theta_TrV)" in ob and abs(np.sin(th) ** 2 - u[0, 0] * smax**2) > 1e-9 * smax**2:
        bad = f"sin^2(theta_TrV) = {np.sin(th)**2} vs u1 sin^2(max) = {u[0,0]*smax**2}"
    if "inverse-CDF image of u4" in ob and abs((3 * A * (Lmax - L) - (Lmax**3 - L**3)) - u[3, 0] * b) > 1e-7 * abs(b):
        bad = f"path length {L} is not the inverse-CDF image of u4 = {u[3,0]}"
    if "Lmin <= L <= Lmax" in ob and not (Lmin * (1 - 1e-9) <= L <= Lmax * (1 + 1e-9)):
        bad = f"L = {L} outside [{Lmin}, {Lmax}]"
    if bad:
        return {"reproduced": True, "key": "diffuse estimator: " + ob.split("/", 1)[-1][:70], "detail": bad}
    if "kept exactly" in ob or "emergence angle ==" in ob or "cos(theta_TrN)" in ob:
        r = P2._replay_mask()
        if r:
            return {"reproduced": True, "key": "throw: validity mask differs from (upward-going and beta < 42 deg)", "detail": r}
    return {"reproduced": False, "key": None, "detail": "real code satisfies the pointwise identity at the model point"}


MANIFEST_ENTRY = {
    "level_text": "Pointwise form of unbiasedness, for every configuration and every u in [0,1]^4 (all symbolic): (1) the normalisation mcnorm computed by the real __init__ equals R^2 over the product of the four reference normalisations; (2) the weight identity -- the geometry-only value returned by the real mcintegral for one thrown event times the reference densities g1 g2 g3 g4 (derivatives of the reference CDFs, not of the code) equals cos(theta_TrN) R^2 sin(theta_S) sin(theta_TrV) dtheta_S/dL, with cos(theta_TrN), the cone angle terms generalised; (3) each coordinate map is the exact inverse of its reference CDF, monotone, and hits both end points (cone angle, two azimuths, path length: G4 strictly decreasing bijection onto [Lmin, Lmax], Lmin the ray-sphere intersection at horizon - limb, Lmax the limb); (4) the validity mask is exactly (upward-going and beta < 42 deg). The sum over events and the division by the number thrown are C03's obligations.",
    "level_note": "REAL arithmetic; N = 1 event per run; generalisation cuts carry only facts proved about the real terms; the convergence of an equal-weight quadrature to the aperture is the mathematical consequence and is not re-established numerically.",
    "technique": "symbolic execution of the real NumPy source + z3 qfnra-nlsat with staged lemmas / generalisation cuts; reference densities by exact differentiation of reference CDFs",
}
