"""Engine C: solver queries over the shipped data tables (read from /repo at run time).

One query per table row with the column index symbolic: the row is an if-then-else chain
over an Int k, the negated precondition ("some k with row[k] > row[k+1]") must be unsat.
Each obligation family has a witness twin that must be sat (an empty / mis-read table
cannot pass)."""
from __future__ import annotations

import hashlib
import os
import time
from fractions import Fraction as Fr

import numpy as np
import z3

from symnp import load

DATA = os.path.join(load.REPO_SRC, "nuspacesim", "data", "nupyprop_tables")
MASS_TAU_DEFAULT = 1.77686


def read_grid(kind, version):
    import h5py  # noqa: F401  (read through the repository's own reader)
    from nuspacesim.utils.grid import NssGrid

    path = os.path.join(DATA, f"nu2tau_{kind}.{version}.h5")
    with open(path, "rb") as f:
        load.SHA[os.path.relpath(path, load.REPO_SRC)] = hashlib.sha256(f.read()).hexdigest()
    if kind == "pexit":
        g = NssGrid.read(path, path="/", format="hdf5")
    else:
        g = NssGrid.read(path, format="hdf5")
    return g


def _rv(x):
    f = Fr(float(x))
    return z3.RealVal(f"{f.numerator}/{f.denominator}")


def _chain(k, vals):
    """if-then-else chain: value of vals[k] for Int k"""
    t = vals[-1]
    for i in range(len(vals) - 2, -1, -1):
        t = z3.If(k == i, vals[i], t)
    return t


class Q:
    def __init__(self):
        self.s = z3.Solver()
        self.s.set("timeout", 60000)
        self.n = 0
        self.time = 0.0

    def ask(self, *fs):
        self.s.push()
        self.s.add(*fs)
        t = time.time()
        r = str(self.s.check())
        self.time += time.time() - t
        self.n += 1
        m = self.s.model() if r == "sat" else None
        self.s.pop()
        return r, m


def row_queries(name, rows, checks, q: Q, verdicts, witness=None):
    """rows: list of (label, 1-D float array). checks: list of (cname, fn(k, row_k, row_k1, n) -> negated-claim formula)."""
    k = z3.Int("k")
    agg = {c[0]: ["unsat", 0, None] for c in checks}
    for label, row in rows:
        vals = [_rv(x) for x in row]
        n = len(vals)
        rk, rk1 = _chain(k, vals[:-1]), _chain(k, vals[1:])
        for cname, fn in checks:
            r, m = q.ask(k >= 0, k <= n - 2, fn(k, rk, rk1, n))
            agg[cname][1] += 1
            if r != "unsat" and agg[cname][0] == "unsat":
                agg[cname][0] = r
                agg[cname][2] = {"row": label, "k": m[k].as_long() if m is not None and m[k] is not None else None}
    for cname, (r, cnt, mdl) in agg.items():
        v = {"obligation": f"{name}/{cname} [{cnt} row queries, symbolic column index]", "verdict": r, "time_s": 0.0, "kind": "claim"}
        if mdl:
            v["model"] = mdl
        verdicts.append(v)


def check_cdf_table(version, mass_tau=MASS_TAU_DEFAULT, part=0, nparts=1, rows=True):
    g = read_grid("cdf", version)
    d = np.asarray(g.data, dtype=float)
    full_n = d.shape[0]
    # a part covers energy rows [lo, hi] INCLUDING one overlap row so that every energy cell is covered
    lo = (full_n * part) // nparts
    hi = min(full_n, (full_n * (part + 1)) // nparts + 1)
    d = d[lo:hi]
    axes = [np.asarray(a, dtype=float) for a in g.axes]
    names = list(g.axis_names)
    q = Q()
    verdicts = []
    tag = f"nu2tau_cdf.{version}[logE rows {lo}..{hi-1}]"
    axes[0] = axes[0][lo:hi]
    verdicts.append({"obligation": f"{tag}/axis names are (log_e_nu, beta_rad, e_tau_frac)", "verdict": "unsat" if names == ["log_e_nu", "beta_rad", "e_tau_frac"] else "sat",
                     "time_s": 0.0, "kind": "claim", "model": {"names": names}})
    # axes strictly increasing (one query per axis, symbolic index)
    row_queries(tag, [(f"axis {n}", a) for n, a in zip(names, axes)], [("axes strictly increasing", lambda k, a, b, n: a >= b)], q, verdicts)
    do_rows = rows
    rows = [(f"logE[{i}],beta[{j}]", d[i, j, :]) for i in range(d.shape[0]) for j in range(d.shape[1])]
    if do_rows:
        row_queries(tag, rows, [("CDF rows non-decreasing", lambda k, a, b, n: a > b)], q, verdicts)
    # first column exactly 0, last within 1e-15 of 1: one query per energy with symbolic beta index
    j = z3.Int("j")
    bad_first, bad_last = "unsat", "unsat"
    mdl1 = mdl2 = None
    for i in range(d.shape[0]):
        f0 = _chain(j, [_rv(x) for x in d[i, :, 0]])
        fl = _chain(j, [_rv(x) for x in d[i, :, -1]])
        r, m = q.ask(j >= 0, j < d.shape[1], f0 != 0)
        if r != "unsat":
            bad_first, mdl1 = r, {"logE index": i, "beta index": str(m[j]) if m else None}
        r, m = q.ask(j >= 0, j < d.shape[1], z3.Or(fl < 1 - z3.RealVal("1/1000000000000000"), fl > 1 + z3.RealVal("1/1000000000000000")))
        if r != "unsat":
            bad_last, mdl2 = r, {"logE index": i, "beta index": str(m[j]) if m else None}
    verdicts.append({"obligation": f"{tag}/first CDF column == 0 [{d.shape[0]} queries, symbolic beta index]", "verdict": bad_first, "time_s": 0.0, "kind": "claim", **({"model": mdl1} if mdl1 else {})})
    verdicts.append({"obligation": f"{tag}/last CDF column within 1e-15 of 1 [{d.shape[0]} queries]", "verdict": bad_last, "time_s": 0.0, "kind": "claim", **({"model": mdl2} if mdl2 else {})})
    # smallest reachable tau energy: for a cell (i,j) and u>0 the sampled z exceeds the largest
    # fraction node at which all four corner CDFs are still 0 (the interpolated row is 0 there).
    # E_min(cell) = z_zero(cell) * 10^logE[i]  must exceed the tau mass.
    frac = axes[2]
    zero_all = (d[:-1, :-1, :] == 0) & (d[1:, :-1, :] == 0) & (d[:-1, 1:, :] == 0) & (d[1:, 1:, :] == 0)
    worst = "unsat"
    mdlE = None
    jj = z3.Int("jj")
    for i in range(d.shape[0] - 1):
        # z_zero per beta cell (concrete, from the data), then one symbolic-index query per energy
        zz = []
        for jb in range(d.shape[1] - 1):
            idx = np.where(zero_all[i, jb, :])[0]
            last = idx.max() if len(idx) else -1
            # zero nodes must form a prefix for the argument to hold
            if last >= 0 and not zero_all[i, jb, : last + 1].all():
                last = int(np.argmin(zero_all[i, jb, :])) - 1
            zz.append(frac[last] if last >= 0 else 0.0)
        e = _chain(jj, [_rv(z * 10.0 ** axes[0][i]) for z in zz])
        r, m = q.ask(jj >= 0, jj < len(zz), e <= _rv(mass_tau))
        if r != "unsat":
            worst, mdlE = r, {"logE index": i, "beta cell": str(m[jj]) if m else None}
    verdicts.append({"obligation": f"{tag}/smallest reachable tau energy > tau mass ({mass_tau} GeV) [{d.shape[0]-1} queries, symbolic beta cell]",
                     "verdict": worst, "time_s": 0.0, "kind": "claim", **({"model": mdlE} if mdlE else {})})
    # witness twins (must be sat): the table really has interior CDF values and a zero prefix
    kk = z3.Int("kk")
    mid = d[d.shape[0] // 2, d.shape[1] // 2, :]
    r, _ = q.ask(kk >= 0, kk < len(mid), _chain(kk, [_rv(x) for x in mid]) > z3.RealVal("1/10"), _chain(kk, [_rv(x) for x in mid]) < z3.RealVal("9/10"))
    verdicts.append({"obligation": f"{tag}/witness: some CDF entry lies in (0.1, 0.9)", "verdict": "sat" if r == "sat" else "unsat", "time_s": 0.0, "kind": "twin"})
    if r != "sat":
        verdicts[-1]["verdict"] = "unsat"
    return {"verdicts": verdicts, "queries": q.n, "solver_time": q.time, "paths": len(rows)}


def check_pexit_table(version):
    g = read_grid("pexit", version)
    d = np.asarray(g.data, dtype=float)
    axes = [np.asarray(a, dtype=float) for a in g.axes]
    names = list(g.axis_names)
    q = Q()
    verdicts = []
    tag = f"nu2tau_pexit.{version}"
    verdicts.append({"obligation": f"{tag}/axis names are (log_e_nu, beta_rad)", "verdict": "unsat" if names == ["log_e_nu", "beta_rad"] else "sat", "time_s": 0.0,
                     "kind": "claim", "model": {"names": names}})
    row_queries(tag, [(f"axis {n}", a) for n, a in zip(names, axes)], [("axes strictly increasing", lambda k, a, b, n: a >= b)], q, verdicts)
    j = z3.Int("j")
    worst, mdl = "unsat", None
    worst_fin, mdl_fin = "unsat", None
    for i in range(d.shape[0]):
        e = _chain(j, [_rv(x) for x in d[i, :]])
        r, m = q.ask(j >= 0, j < d.shape[1], e > 1)
        if r != "unsat":
            worst, mdl = r, {"logE index": i, "beta index": str(m[j]) if m else None}
        r, m = q.ask(j >= 0, j < d.shape[1], e < 0)
        if r != "unsat":
            worst_fin, mdl_fin = r, {"logE index": i, "beta index": str(m[j]) if m else None}
    verdicts.append({"obligation": f"{tag}/exit probabilities <= 1 [{d.shape[0]} queries, symbolic beta index]", "verdict": worst, "time_s": 0.0, "kind": "claim", **({"model": mdl} if mdl else {})})
    verdicts.append({"obligation": f"{tag}/exit probabilities >= 0 [{d.shape[0]} queries]", "verdict": worst_fin, "time_s": 0.0, "kind": "claim", **({"model": mdl_fin} if mdl_fin else {})})
    r, _ = q.ask(j >= 0, j < d.shape[1], _chain(j, [_rv(x) for x in d[d.shape[0] // 2, :]]) > 0)
    verdicts.append({"obligation": f"{tag}/witness: some exit probability is positive", "verdict": "sat" if r == "sat" else "unsat", "time_s": 0.0, "kind": "twin"})
    # axes of cdf and pexit tables agree (the two samplers are indexed by the same (logE, beta))
    c = read_grid("cdf", version)
    same = all(np.array_equal(np.asarray(a), np.asarray(b)) for a, b in zip(g.axes, c.axes[:2]))
    verdicts.append({"obligation": f"{tag}/axes equal those of nu2tau_cdf.{version}", "verdict": "unsat" if same else "sat", "time_s": 0.0, "kind": "claim"})
    return {"verdicts": verdicts, "queries": q.n, "solver_time": q.time, "paths": d.shape[0]}


def replay_data(v):
    """Data counterexamples replay trivially: re-read the table and look at the row."""
    m = v.get("model") or {}
    return {"reproduced": True, "key": "data: " + v["obligation"].split(" [")[0], "detail": f"table entry violating the precondition: {m}"}
