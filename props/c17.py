"""C17 -- staged output is prefix-consistent at stage boundaries and after stage failure."""
from __future__ import annotations

import z3

from props import compute_model as cm
from symnp import core, harness
from symnp.arr import SymArray
from symnp.core import SV

ID = "C17"
META = {
    "bounds": {
        "quick": "real compute() body, 2 thrown events with a symbolic survival mask, write_stages a symbolic Boolean, failure point symbolic over every stage call of the run (plus 'no failure'); configurations {Diffuse, Target} x {both channels, optical only, radio only}; default diffuse run: 15 stage boundaries",
        "thorough": "3 thrown events; additionally power-law spectrum and mono cloud variants",
    },
    "outside_bounds": ["atomicity of astropy's overwrite=True write DURING a write (the property speaks of stage boundaries)", "readability of the real FITS bytes (astropy.io.fits)", "process death inside a stage is modelled as an exception raised by that stage"],
    "stubs": ["astropy Table -> recording table; write(path) snapshots columns+meta into a dict standing for the file system and refuses to overwrite without overwrite=True (as astropy does)",
              "stage kernels -> symbolic columns; numeric primitives uninterpreted (structural property)", "failure injection: the k-th stage call raises, k symbolic"],
    "assumptions": ["a stage failure surfaces as a Python exception", "astropy add_columns copies the column data (copy=True default)"],
}
LEDGER = {"quick": 2550, "thorough": 5000}


def _same_col(a, b):
    a, b = SymArray(a), SymArray(b)
    if a.shape != b.shape:
        return False
    return all(SV.of(x).term().eq(SV.of(y).term()) if not (SV.of(x).t is None and isinstance(SV.of(x).c, float)) else SV.of(x).c == SV.of(y).c
               for x, y in zip(a.a.reshape(-1), b.a.reshape(-1)))


def _is_prefix(snap, final_cols, final_meta):
    names = list(snap["cols"])
    if names != list(final_cols)[: len(names)]:
        return False
    if not all(_same_col(snap["cols"][n], final_cols[n]) for n in names):
        return False
    mk = list(snap["meta"])
    if mk != list(final_meta)[: len(mk)]:
        return False
    return all(snap["meta"][k] is final_meta[k] or snap["meta"][k] == final_meta[k] for k in mk)


def staged_run(mode, optical, radio, thrown, spectrum="mono", cloud="none"):
    def run(C):
        ws = SV(t=z3.Bool("write_stages"), kind="B")
        rec = cm.run_compute(mode=mode, optical=optical, radio=radio, thrown=thrown, spectrum=spectrum, cloud=cloud,
                             write_stages=ws, output_file="out.fits", fail_symbolic=True)
        wrote = C.cache_lookup(z3.Bool("write_stages")) if hasattr(C, "cache_lookup") else None
        log = rec.log
        writes = [e for e in log if e[0] == "write"]
        adds = [e for e in log if e[0] in ("add", "meta")]
        t = rec.table
        final_cols, final_meta = t.cols, t.meta
        failed = rec.exception is not None
        tag = f"[{'failure in ' + rec.failed_at[1] if failed else 'no failure'}; {len(adds)} stage boundaries]"
        claims = {}
        if writes or _ws_true(C):
            # write_stages is true on this path
            ok_alt = len(writes) == len(adds)
            # every store is immediately followed by a write
            seq_ok = True
            for i, e in enumerate(log):
                if e[0] in ("add", "meta"):
                    seq_ok = seq_ok and i + 1 < len(log) and log[i + 1][0] == "write"
            claims[f"every stage boundary is followed by a write of the file {tag}"] = z3.BoolVal(ok_alt and seq_ok)
            claims[f"writes go to the configured path, as FITS, with overwrite {tag}"] = z3.BoolVal(all(w[1] == "out.fits" and w[2] == "fits" for w in writes))
            # snapshot k == table state after k stores == prefix of the final table
            state_ok, k = True, 0
            cols_seen, meta_seen = [], [m for m in final_meta if m not in [e[1] for e in adds if e[0] == "meta"]]
            for e in log:
                if e[0] == "add":
                    cols_seen += list(e[1])
                elif e[0] == "meta":
                    meta_seen.append(e[1])
                else:
                    snap = e[3]
                    state_ok = state_ok and list(snap["cols"]) == cols_seen and list(snap["meta"]) == meta_seen
            claims[f"each written file contains exactly the columns and header values of the stages completed so far {tag}"] = z3.BoolVal(state_ok)
            claims[f"each written file is identical to the corresponding part of the final table (no later stage alters a stored column) {tag}"] = z3.BoolVal(
                all(_is_prefix(w[3], final_cols, final_meta) for w in writes))
            if failed:
                on_disk = rec.fs.get("out.fits")
                if adds:
                    claims[f"after the failure the file on disk is the last completed prefix {tag}"] = z3.BoolVal(
                        on_disk is not None and list(on_disk["cols"]) == list(final_cols) and list(on_disk["meta"]) == list(final_meta) and _is_prefix(on_disk, final_cols, final_meta))
                else:
                    claims[f"failure before the first boundary leaves no file {tag}"] = z3.BoolVal(on_disk is None)
        else:
            claims[f"intermediate writing disabled: nothing is written by the simulation {tag}"] = z3.BoolVal(len(writes) == 0 and not rec.fs)
        if failed:
            claims[f"the stage failure propagates out of compute() {tag}"] = z3.BoolVal(isinstance(rec.exception, cm.StageFailure) and rec.result is None)
        else:
            claims[f"compute() returns the table {tag}"] = z3.BoolVal(rec.result is t)
            if mode == "Diffuse" and optical and radio and len(t) > 0:
                claims["a default diffuse run has 15 stage boundaries"] = z3.BoolVal(len(adds) == 15)
        return harness.Out(claims=claims, inputs={"fail_at": z3.Real("fail_at")}, skip_defd=lambda tag_, where: "structural harness: numeric primitives are uninterpreted",
                           info={"boundaries": len(adds), "failed": rec.failed_at})

    return run


def _ws_true(C):
    b = z3.Bool("write_stages")
    for lit in C.pc:
        if lit.eq(b):
            return True
    return False


def job_staged(mode, optical, radio, thrown, tier, spectrum="mono", cloud="none"):
    return harness.run_job(f"compute({mode},optical={optical},radio={radio},{spectrum},{cloud},thrown={thrown})", staged_run(mode, optical, radio, thrown, spectrum, cloud),
                           timeout_ms=20000, prune_timeout_ms=2000)


def jobs(tier, seed):
    n = 2 if tier == "quick" else 3
    out = []
    for mode in ("Diffuse", "Target"):
        for o, r in ((True, True), (True, False), (False, True)):
            out.append((f"{mode}{o}{r}", "job_staged", {"mode": mode, "optical": o, "radio": r, "thrown": n, "tier": tier}))
    if tier == "thorough":
        out.append(("pw", "job_staged", {"mode": "Diffuse", "optical": True, "radio": True, "thrown": 2, "tier": tier, "spectrum": "power", "cloud": "mono"}))
    return out


STAGE_TARGETS = {
    "geom.throw": ("RegionGeom", "throw"), "geom.find_lat_long": ("RegionGeom", "find_lat_long_along_traj"), "spectra": ("Spectra", "__call__"),
    "taus": ("Taus", "__call__"), "eas.altDec": ("EAS", "altDec"), "eas.optical": ("EAS", "__call__"), "geom.mcintegral[Optical]": ("RegionGeom", "mcintegral"),
    "eas.radio": ("EASRadio", "__call__"), "radio.snr": (None, "calculate_snr"), "geom.mcintegral[Radio]": ("RegionGeom", "mcintegral"),
}


def replay(v):
    """Real compute() (real stages, real astropy Table, real FITS file). Table.write and
    Table.add_columns are wrapped by recorders; the stage named in the obligation is made to
    fail by patching it in the nuspacesim.compute module."""
    import os
    import sys
    import tempfile
    import warnings
    from unittest import mock

    import numpy as np
    from astropy.table import Table

    import nuspacesim  # noqa: F401
    from nuspacesim.config import NssConfig

    import dask

    dask.config.set(scheduler="synchronous")
    comp = sys.modules["nuspacesim.compute"]
    ob = v["obligation"]
    job = v.get("job", "")
    stage = ob.split("[failure in ")[1].split(";")[0] if "[failure in " in ob else None
    cfg = NssConfig()
    cfg.simulation.thrown_events = 150
    cfg.detector.optical.enable = "optical=True" in job
    cfg.detector.radio.enable = "radio=True" in job
    target_mode = "Target" in job
    if target_mode:
        cfg.simulation.mode = "Target"
        cfg.simulation.spectrum.log_nu_energy = 10.0
        cfg.simulation.thrown_events = 1500
    if "no failure; 1 stage boundaries" in ob:
        # the path on which no trajectory survives: only the (empty) geometry columns are stored
        cfg.simulation.thrown_events = 1
        cfg.simulation.angle_from_limb = 1e-9
    seed = 3
    if "no failure; 1 stage boundaries" in ob and not target_mode:
        from nuspacesim.simulation.geometry.region_geometry import RegionGeom

        for seed in range(200):  # a seed for which the single thrown trajectory does not survive
            np.random.seed(seed)
            g_ = RegionGeom(cfg)
            g_.throw(1)
            if not g_.event_mask.any():
                break
    np.random.seed(seed)
    write_stages = "disabled" not in ob

    class Boom(Exception):
        pass

    events = []

    def _hdr(t):
        return [m for m in t.meta if m.isupper() and len(m) <= 8]

    class RecT(Table):
        def add_columns(self, *a, **k):
            r = super().add_columns(*a, **k)
            events.append(("add", list(self.colnames), _hdr(self)))
            return r

        def write(self, *a, **k):
            events.append(("write", list(self.colnames), _hdr(self), a, k))
            return super().write(*a, **k)

    rt = sys.modules["nuspacesim.results_table"]
    patches = [mock.patch.object(rt, "AstropyTable", RecT)]
    if stage:
        cls, meth = STAGE_TARGETS[stage]
        if target_mode and cls == "RegionGeom":
            cls = "RegionGeomToO"
        calls = {"n": 0}
        target = getattr(comp, cls) if cls else comp
        orig = getattr(target, meth)
        want_method = "Radio" if "Radio" in stage else "Optical"

        def failing(*a, **k):
            if meth == "mcintegral" and k.get("method") != want_method:
                return orig(*a, **k)
            raise Boom()

        patches.append(mock.patch.object(target, meth, failing))
    with tempfile.TemporaryDirectory() as d, warnings.catch_warnings():
        warnings.simplefilter("ignore")
        # (a name from which astropy cannot infer the format when the claim is about the format that is written)
        p_ = os.path.join(d, "o.out" if "as FITS" in ob else "o.fits")
        raised = None
        for pt in patches:
            pt.start()
        try:
            try:
                res = comp.compute(cfg, output_file=p_, write_stages=write_stages)
            except Boom as e:
                raised = e
            except Exception as ex:
                if "as FITS" in ob:
                    return {"reproduced": True, "key": "staged output is not written as FITS to the configured path",
                            "detail": f"output file name 'o.out', write_stages={write_stages}: compute() raised {type(ex).__name__}: {ex}"}
                return {"reproduced": False, "key": None, "detail": f"real run raised {type(ex).__name__}: {ex}"}
        finally:
            for pt in patches:
                pt.stop()
        writes = [e for e in events if e[0] == "write"]
        adds = [e for e in events if e[0] == "add"]
        bad = None
        if not write_stages:
            if writes or os.path.exists(p_):
                bad = f"{len(writes)} writes although intermediate writing is disabled"
        else:
            final_cols = adds[-1][1] if adds else []
            # boundaries completed = column stores + header keywords present at the end
            final_meta = (writes[-1][2] if writes else [])
            table_meta = []
            if raised is None:
                # (a NaN header value -- statistical uncertainty of a one-event run -- is not representable in FITS)
                table_meta = [m for m in res.meta if m.isupper() and len(m) <= 8 and not (isinstance(res.meta[m][0], float) and res.meta[m][0] != res.meta[m][0])]
            all_meta = [m for m in res.meta if m.isupper() and len(m) <= 8] if raised is None else []
            if raised is None and len(writes) != len(adds) + len(all_meta):
                bad = f"{len(adds)} column stores + {len(all_meta)} header keywords but {len(writes)} writes"
            seen_cols = []
            ai = 0
            for e in events:
                if e[0] == "add":
                    seen_cols = e[1]
                elif e[0] == "write" and e[1] != seen_cols:
                    bad = f"a write stored columns {e[1]} while the table held {seen_cols}"
            if stage and raised is None:
                bad = "the injected stage failure did not propagate out of compute()"
            if os.path.exists(p_):
                try:
                    t = Table.read(p_, format="fits")
                except Exception as ex:  # noqa
                    return {"reproduced": True, "key": "staged output is not written as FITS to the configured path",
                            "detail": f"the file left at {os.path.basename(p_)!r} is not a readable FITS table: {type(ex).__name__}: {ex}"}
                if list(t.colnames) != final_cols:
                    bad = f"file on disk has columns {t.colnames}, last completed prefix is {final_cols}"
                if raised is None and [m for m in t.meta if m.isupper() and len(m) <= 8 and m in table_meta] != table_meta:
                    bad = f"file on disk lacks header keywords: has {[m for m in t.meta if m in table_meta]}, table has {table_meta}"
                if not adds and not (raised is None and table_meta):
                    bad = "a file was written although no stage had completed"
            elif adds:
                bad = "no file on disk although stages completed"
        if bad:
            return {"reproduced": True, "key": "staged output: " + bad.split(" [")[0][:80], "detail": bad + f" (failure injected in: {stage})"}
    return {"reproduced": False, "key": None, "detail": "real run satisfies the staged-output predicate"}


MANIFEST_ENTRY = {
    "level_text": "The real compute() body (real StagedWriter, real decorators, real stage order) is executed symbolically with a recording table / file system, write_stages a symbolic Boolean, a symbolic survival mask and a SYMBOLIC failure point ranging over every stage call of the run: on every feasible path the checks establish that each stage boundary is followed by a write, that each written snapshot holds exactly the columns and header values completed so far and is identical to the corresponding part of the final table, that after a failure at stage k the file is the last completed prefix and the exception propagates, that nothing is written when intermediate writing is off, and that a default diffuse run has 15 boundaries.",
    "level_note": "The format claim is replayed with an output name from which astropy cannot infer the format. File system and astropy Table are recording stubs (write = snapshot; overwrite semantics as astropy); atomicity inside a write and real FITS bytes are outside; process death is modelled as an exception raised by a stage. Decisions are z3 feasibility verdicts over the symbolic failure index / flags; the per-path claims are structural.",
    "technique": "symbolic execution of the real compute() with symbolic failure point and flags (DFS + z3 feasibility), recording file-system stub",
}
