"""C19 -- standard-atmosphere pressure and altitude are mutual inverses (partial)."""
from __future__ import annotations

import os
from fractions import Fraction as Fr

import z3

from symnp import core, harness, load
from symnp.arr import SymArray, symarr
from symnp.core import SV

ID = "C19"
MODS = {"atmosphere": "nuspacesim.simulation.atmosphere.pressure", "optical": "nuspacesim.simulation.eas_optical.atmospheric_models"}
META = {
    "bounds": {
        "quick": "scalar and length-2 array inputs, all 8 layers (every layer pair for the round trips, the cross-layer neighbourhoods of the 7 boundaries included); altitude / pressure symbolic over the whole layer; both shipped copies",
        "thorough": "same, second solver",
    },
    "outside_bounds": ["libm rounding of exp/log/pow (REAL mode: the 1e-6 km / 1e-6 relative tolerances are established for the exact real-valued formulas with the tabulated constants, i.e. for the steps the layer table introduces; the replay probes the IEEE behaviour on and next to every boundary)",
                       "arrays longer than 2"],
    "stubs": ["np.exp / np.log / ** with non-integer exponent -> Ackermannised functions with congruence, strict monotonicity, inverse-pair and reciprocal axiom instances; applications at rational points are enclosed by mpmath intervals",
              "on the cross-layer paths additionally the convexity instances exp(y) >= exp(x)(1+y-x), log(y)-log(x) <= (y-x)/x and Bernoulli's inequality for pow with equal exponents (solve.tangent_axioms), anchored at the layer-top applications of the forward formulas"],
    "assumptions": ["REAL mode: literals read as exact rationals", "bit-for-bit agreement of the two copies is established as identity of the EUF shadow terms: same uninterpreted operations on the same operands in the same order (no constant folding), on every path"],
}
LEDGER = {"quick": 3120, "thorough": 3120}


def _fns(which):
    ns = load.load(MODS[which])
    return ns["us_std_atm_pressure_from_altitude"], ns["us_std_atm_altitude_from_pressure"], ns


def _skip(tag, where):
    if tag == "div" and "earth_radius - H" in harness.src_line(where):
        return "geopotential height H reaches the Earth radius only for P < 1e-499 Pa (H < 3900 km at the smallest positive double): outside the doubles, not claimed"
    return None


def _mk_input(name, shape):
    if shape == ():
        return SV(t=z3.Real(name)), [z3.Real(name)]
    vs = [z3.Real(f"{name}{i}") for i in range(shape[0])]
    return SymArray([SV(t=v) for v in vs], "float"), vs


def _elems(x):
    if isinstance(x, SymArray):
        return list(x.a.reshape(-1))
    return [SV.of(x)]


def congruent_run(direction, shape):
    def run(C):
        C.euf = True
        pA, aA, _ = _fns("atmosphere")
        pB, aB, _ = _fns("optical")
        x, vs = _mk_input("z" if direction == "p_of_z" else "P", shape)
        for v in vs:
            C.assume(v >= 0)
            if direction == "z_of_P":
                C.assume(v <= 101325)
        fA, fB = (pA, pB) if direction == "p_of_z" else (aA, aB)
        ra, rb = fA(x), fB(x)
        ea, eb = _elems(ra), _elems(rb)
        claims = {"same output shape": z3.BoolVal(len(ea) == len(eb) and getattr(ra, "shape", ()) == getattr(rb, "shape", ()))}
        for k, (a, b) in enumerate(zip(ea, eb)):
            claims[f"[{k}] the two copies build the identical EUF term (same operations, operands and order: bit-for-bit agreement)"] = z3.BoolVal(core.eterm(a).eq(core.eterm(b)))
            if not (a.t is None and isinstance(a.c, float)):
                claims[f"[{k}] (solver) outputs equal over the reals"] = a.term() == b.term()
            else:
                claims[f"[{k}] both infinite"] = z3.BoolVal(b.t is None and b.c == a.c)
        return harness.Out(claims=claims, inputs={str(v): v for v in vs}, skip_defd=_skip)

    return run


def _layer_of(C, terms):
    return None


def forward_run(which):
    """pressure_from_altitude on a symbolic scalar altitude: layer selection, positivity, in-layer bounds."""

    def run(C):
        p_of_z, z_of_p, ns = _fns(which)
        const = ns["const"]
        R = SV.of(const.earth_radius)
        H, L, T, Pb = (ns[k] for k in ("H_b", "Lm_b", "T_b", "P_b"))
        g = SV.of(ns["gmr"])
        z = z3.Real("z")
        C.assume(z >= 0, z <= 120)
        P = p_of_z(SV(t=z))
        h = (SV(t=z) * R / (SV(t=z) + R)).term()
        i = _layer(C, h, H, "H")
        Pt = _elems(P)[0].term()
        Hn = H.a[i + 1]
        claims = {
            f"layer {i}: selected layer is the last j with H_b[j] <= h": z3.And(H.a[i].term() <= h, z3.BoolVal(True) if Hn.is_inf() else h < Hn.term()),
            f"layer {i}: pressure > 0": Pt > 0,
            f"layer {i}: pressure <= pressure at the layer base": Pt <= Pb.a[i].term(),
        }
        # lower bound: never below the next layer's base pressure by more than the 3e-7 relative step
        if not Hn.is_inf():
            dH = Hn - H.a[i]
            if L.a[i].c == 0:
                end = core.sv_exp((-g / T.a[i]) * dH)
            else:
                end = (T.a[i] / (T.a[i] + L.a[i] * dH)) ** (g / L.a[i])
            endP = (Pb.a[i] * end).term()
            nxt = Pb.a[i + 1].term()
            step = core.rv(Fr(3, 10**7))
            claims[f"layer {i}: formula at the layer top within 3e-7 (relative) of the next tabulated base pressure"] = z3.And(endP - nxt <= step * nxt, nxt - endP <= step * nxt)
            claims[f"layer {i}: pressure >= layer-top value (non-increasing within the layer)"] = Pt >= endP
        return harness.Out(claims=claims, inputs={"z": z}, observe={"P": P})

    return run


def _layer(C, x, table, kind):
    """The layer the current path is in, WITHOUT looking at the implementation's local variables: the unique k
    whose defining condition (kind 'H': H_b[k] <= x < H_b[k+1]; kind 'P': P_b[k] >= x > P_b[k+1]) is
    consistent with the path condition.  (That the path condition IMPLIES it is a claim of its own.)"""
    from symnp import solve

    # fast path: the path condition usually contains the code's own comparisons of this quantity with the table
    # (H_b[j] <= h resp. P_b[j] >= P, or their negations); they are recognised by the tabulated constant on one side
    # and the variables of x on the other.  The solver is only asked when that does not settle the layer.
    xv = solve.vars_of(x) - {"pi"}
    status = {}
    for p_ in C.pc:
        pos, t = True, p_
        if t.decl().kind() == z3.Z3_OP_NOT:
            pos, t = False, t.children()[0]
        kd = t.decl().kind()
        if kd not in (z3.Z3_OP_LE, z3.Z3_OP_GE) or len(t.children()) != 2:
            continue
        l, r_ = t.children()
        if z3.is_rational_value(r_) and not z3.is_rational_value(l):  # T >= c  /  T <= c  ->  c <= T  /  c >= T
            l, r_, kd = r_, l, (z3.Z3_OP_LE if kd == z3.Z3_OP_GE else z3.Z3_OP_GE)
        if not z3.is_rational_value(l) or (solve.vars_of(r_) - {"pi"}) != xv:
            continue
        if (kind == "H") != (kd == z3.Z3_OP_LE):
            continue
        for j in range(1, 9):
            tj = table.a[j]
            if not tj.is_inf() and tj.t is None and l.eq(core.rv(tj.c)):
                status[j] = pos
    if status:
        ks = [k for k in range(8) if all(status.get(j) is True for j in range(1, k + 1))
              and (table.a[k + 1].is_inf() if kind == "H" and table.a[k + 1].is_inf() else status.get(k + 1) is False or (k == 7 and kind == "P" and status.get(8) is None))]
        if len(ks) == 1:
            return ks[0]
    cands = []
    for k in range(8):
        a, b = table.a[k], table.a[k + 1]
        if kind == "H":
            cond = z3.And(a.term() <= x, z3.BoolVal(True) if b.is_inf() else x < b.term())
        else:
            cond = z3.And(a.term() >= x, x > b.term())
        r = solve.quick_feasible(C, cond, 4000)
        if r == "sat":
            return k
        if r != "unsat":
            cands.append(k)
    if len(cands) == 1:
        return cands[0]
    if not cands:
        raise core.PathAbort()  # every layer refuted: the path condition itself is unsatisfiable
    raise core.HarnessError(f"layer of the path not determined (candidates {cands})")


def _h_of(z, R):
    return (SV(t=z) * R / (SV(t=z) + R)).term() if not isinstance(z, SV) else (z * R / (z + R)).term()


def mono_run(which):
    def run(C):
        p_of_z, _z, ns = _fns(which)
        z0, z1 = z3.Real("z0"), z3.Real("z1")
        C.assume(z0 >= 0, z0 < z1, z1 <= 120)
        P = p_of_z(SymArray([SV(t=z0), SV(t=z1)], "float"))
        R = SV.of(ns["const"].earth_radius)
        i = [_layer(C, _h_of(zz_, R), ns["H_b"], "H") for zz_ in (z0, z1)]
        claims = {}
        if i[0] == i[1]:
            claims[f"layer {i[0]}: pressure strictly decreasing with altitude inside a layer (array input)"] = P[0].term() > P[1].term()
        else:
            claims[f"layers {i[0]}->{i[1]}: the higher point is in a higher layer"] = z3.BoolVal(i[1] > i[0])
        return harness.Out(claims=claims, inputs={"z0": z0, "z1": z1})

    return run


def roundtrip_z_run(which):
    def run(C):
        p_of_z, z_of_p, ns = _fns(which)
        z = z3.Real("z")
        C.assume(z >= 0, z <= 120)
        P = p_of_z(SV(t=z))
        zz = z_of_p(P)
        R = SV.of(ns["const"].earth_radius)
        i = _layer(C, _h_of(z, R), ns["H_b"], "H")
        j = _layer(C, _elems(P)[0].term(), ns["P_b"], "P")
        back = _elems(zz)[0]
        claims = {}
        if i != j:  # quantitative axiom instances only where a tolerance has to be established (they slow the path pruning down)
            C.tangent = True
            _register_forward_ends(ns)
        if i == j:
            claims[f"layer {i}: altitude -> pressure -> altitude is the identity"] = back.term() == z
        else:
            Pt = _elems(P)[0].term()
            Pb = ns["P_b"]
            if j > i + 1:  # the path claims P <= P_b[j]: refuted by P > P_b[i+2] (stays above the base pressure of the layer after the next)
                claims[f"layers {i}->{j}: a cross-layer round trip only happens between neighbouring layers (pressure of a point of layer {i} is above P_b[{i + 2}])"] = Pt > Pb.a[i + 2].term()
            if j < i:  # the path claims P > P_b[j+1] >= P_b[i]
                claims[f"layers {i}->{j}: the inverse never selects a lower layer (pressure of a point of layer {i} is at most P_b[{i}])"] = Pt <= Pb.a[i].term()
            tol = core.rv(Fr(os.environ.get("C19_TOL", "1/1000000")))
            claims[f"layers {i}->{j}: altitude -> pressure -> altitude within 1e-6 km across the layer boundary (tangent-line / Bernoulli bounds on exp, log, pow)"] = z3.And(back.term() - z <= tol, z - back.term() <= tol)
        return harness.Out(claims=claims, inputs={"z": z}, info={"layers": (i, j)}, observe={"back": zz}, skip_defd=_skip)

    return run


def _register_forward_ends(ns):
    """Applications of the forward layer formulas at the layer tops (rational points -> interval enclosures): the
    anchors of the tangent-line bounds next to a boundary."""
    H, L, T = (ns[k] for k in ("H_b", "Lm_b", "T_b"))
    g = SV.of(ns["gmr"])
    for i in range(7):
        dH = H.a[i + 1] - H.a[i]
        if L.a[i].c == 0:
            core.sv_exp((-g / T.a[i]) * dH)
        else:
            (T.a[i] / (T.a[i] + L.a[i] * dH)) ** (g / L.a[i])


def _register_inverse_boundaries(ns, p_floor):
    """Applications of the inverse layer formulas at the layer ends (rational points -> interval
    enclosures): with monotonicity they bound the geopotential height inside each layer."""
    H, L, T, Pb = (ns[k] for k in ("H_b", "Lm_b", "T_b", "P_b"))
    g = SV.of(ns["gmr"])
    for j in range(8):
        lowP = Pb.a[j + 1] if j < 7 else SV(c=p_floor)
        ratio = Pb.a[j] / lowP
        if L.a[j].c == 0:
            core.sv_log(ratio)
        else:
            ratio ** ((SV(c=Fr(1)) / g) * L.a[j])


def roundtrip_p_run(which):
    def run(C):
        p_of_z, z_of_p, ns = _fns(which)
        Pv = z3.Real("P")
        floor = Fr(1, 1000)  # below the pressure at the model top (120 km: ~2.5e-3 Pa)
        C.assume(Pv >= core.rv(floor), Pv <= 101325)
        _register_inverse_boundaries(ns, floor)
        zz = z_of_p(SV(t=Pv))
        PP = p_of_z(zz)
        R = SV.of(ns["const"].earth_radius)
        Pb = ns["P_b"]
        j = _layer(C, Pv, Pb, "P")
        i = _layer(C, _h_of(_elems(zz)[0], R), ns["H_b"], "H")
        claims = {f"layer {j}: selected layer is the last j with P_b[j] >= P": z3.And(Pb.a[j].term() >= Pv, Pv > Pb.a[j + 1].term())}
        zt = _elems(zz)[0].term()
        claims[f"layer {j}: altitude >= 0 and finite for positive pressure"] = zt >= 0
        if i == j:
            claims[f"layer {j}: pressure -> altitude -> pressure is the identity"] = _elems(PP)[0].term() == Pv
        else:
            C.tangent = True
            _register_forward_ends(ns)
            ht = _h_of(_elems(zz)[0], R)
            H = ns["H_b"]
            if i > j + 1:  # the path claims h >= H_b[i]
                claims[f"layers {j}->{i}: a cross-layer round trip only happens between neighbouring layers (geopotential height of a pressure of layer {j} is below H_b[{j + 2}])"] = ht < H.a[j + 2].term()
            if i < j:
                claims[f"layers {j}->{i}: the forward function never selects a lower layer (geopotential height of a pressure of layer {j} is at least H_b[{j}])"] = ht >= H.a[j].term()
            tol = core.rv(Fr(os.environ.get("C19_TOL", "1/1000000")))
            PPt = _elems(PP)[0].term()
            claims[f"layers {j}->{i}: pressure -> altitude -> pressure within 1e-6 relative across the layer boundary (tangent-line / Bernoulli bounds on exp, log, pow)"] = z3.And(PPt - Pv <= tol * Pv, Pv - PPt <= tol * Pv)
        return harness.Out(claims=claims, inputs={"P": Pv}, info={"layers": (j, i)}, observe={"z": zz}, skip_defd=_skip)

    return run


def limits_run(which):
    def run(C):
        p_of_z, z_of_p, ns = _fns(which)
        z0 = z_of_p(SV(c=Fr(0)))
        p_inf = p_of_z(SV(c=float("inf")))
        zarr = z_of_p(SymArray([SV(c=Fr(0)), SV(t=z3.Real("P"))], "float"))
        C.assume(z3.Real("P") > 0, z3.Real("P") <= 101325)
        e0, ei = _elems(z0)[0], _elems(p_inf)[0]
        claims = {
            "zero pressure maps to infinite altitude": z3.BoolVal(e0.t is None and isinstance(e0.c, float) and e0.c == float("inf")),
            "infinite altitude maps to zero pressure": z3.BoolVal(ei.t is None and ei.c == 0),
            "array input: zero pressure entry -> inf, positive entry finite": z3.BoolVal(zarr.a[0].is_inf() and not zarr.a[1].is_inf()),
            "surface: pressure_from_altitude(0) == 101325": _elems(p_of_z(SV(c=Fr(0))))[0].term() == 101325,
        }
        return harness.Out(claims=claims, skip_defd=_skip)

    return run


def _job(name, run, tier, to=60000):
    return harness.run_job(name, run, timeout_ms=to if tier == "quick" else 600000, second=(tier == "thorough"))


def job_congruent(direction, shape, tier):
    return _job(f"two copies congruent ({direction}, shape={tuple(shape)})", congruent_run(direction, tuple(shape)), tier)


def job_forward(which, tier):
    return _job(f"{which}: pressure_from_altitude", forward_run(which), tier)


def job_mono(which, tier):
    return _job(f"{which}: monotone", mono_run(which), tier)


def job_rtz(which, tier):
    return _job(f"{which}: z->P->z", roundtrip_z_run(which), tier)


def job_rtp(which, tier):
    return _job(f"{which}: P->z->P", roundtrip_p_run(which), tier)


def job_limits(which, tier):
    return _job(f"{which}: limits", limits_run(which), tier)


def jobs(tier, seed):
    out = []
    for d in ("p_of_z", "z_of_P"):
        for shp in ([], [2]):
            out.append((f"cg{d}{shp}", "job_congruent", {"direction": d, "shape": shp, "tier": tier}))
    for w in ("atmosphere", "optical"):
        for j in ("job_forward", "job_mono", "job_rtz", "job_rtp", "job_limits"):
            out.append((f"{w}{j}", j, {"which": w, "tier": tier}))
    return out


def replay(v):
    import numpy as np

    from nuspacesim.simulation.atmosphere import pressure as A
    from nuspacesim.simulation.eas_optical import atmospheric_models as B

    job, ob = v.get("job", ""), v["obligation"]
    m = {k: x for k, x in (v.get("model") or {}).items() if x is not None}
    mod = B if job.startswith("optical") else A
    with np.errstate(all="ignore"):
        if "defined:" in ob:
            # a definedness counterexample (e.g. a sentinel-layer entry reaching a division) shows at the limits: the
            # zero-pressure / infinite-altitude entries, alone and as one entry of an otherwise ordinary batch, in both copies
            for M_ in (A, B):
                pb = np.asarray(M_.us_std_atm_pressure_from_altitude(np.array([1.0, np.inf, 30.0])), dtype=float)
                zb_ = np.asarray(M_.us_std_atm_altitude_from_pressure(np.array([1000.0, 0.0, 5.0])), dtype=float)
                p1, z1 = float(M_.us_std_atm_pressure_from_altitude(np.inf)), float(M_.us_std_atm_altitude_from_pressure(0.0))
                if p1 != 0.0 or z1 != np.inf or pb[1] != 0.0 or not np.all(np.isfinite(pb)) or zb_[1] != np.inf or not np.all(np.isfinite(zb_[[0, 2]])):
                    return {"reproduced": True, "key": "standard atmosphere: zero pressure and infinite altitude are not mapped onto each other",
                            "detail": f"{M_.__name__}: P(inf) = {p1}, z(0) = {z1}, P([1, inf, 30] km) = {pb.tolist()}, z([1000, 0, 5] Pa) = {zb_.tolist()}"}
        if job.startswith("two copies"):
            if "p_of_z" in job:
                xs = np.array([m.get("z", m.get("z0", 11.0)), m.get("z1", 47.0)])
                a, b = A.us_std_atm_pressure_from_altitude(xs), B.us_std_atm_pressure_from_altitude(xs)
            else:
                xs = np.array([m.get("P", m.get("P0", 22632.0)), m.get("P1", 110.9)])
                a, b = A.us_std_atm_altitude_from_pressure(xs), B.us_std_atm_altitude_from_pressure(xs)
            # dense sweep as a second witness
            zs = np.concatenate([xs, np.linspace(0, 120, 4001)]) if "p_of_z" in job else np.concatenate([xs, np.geomspace(1e-3, 101325, 4001)])
            fa = (A.us_std_atm_pressure_from_altitude, B.us_std_atm_pressure_from_altitude) if "p_of_z" in job else (A.us_std_atm_altitude_from_pressure, B.us_std_atm_altitude_from_pressure)
            ra, rb = fa[0](zs), fa[1](zs)
            if not np.array_equal(ra, rb):
                k = int(np.argmax(ra != rb))
                return {"reproduced": True, "key": "standard atmosphere: the two shipped copies differ", "detail": f"input {zs[k]!r}: atmosphere copy {ra[k]!r}, optical copy {rb[k]!r}"}
            return {"reproduced": False, "key": None, "detail": "copies agree bit for bit on the model point and a 4001-point sweep"}
        if "z->P->z" in job and "identity" in ob:
            z = m.get("z", 5.0)
            back = float(mod.us_std_atm_altitude_from_pressure(mod.us_std_atm_pressure_from_altitude(z)))
            if abs(back - z) > 1e-6:
                return {"reproduced": True, "key": "standard atmosphere: altitude round trip off by more than 1e-6 km", "detail": f"z={z} -> {back}"}
        if "P->z->P" in job and "identity" in ob:
            P = m.get("P", 5000.0)
            back = float(mod.us_std_atm_pressure_from_altitude(mod.us_std_atm_altitude_from_pressure(P)))
            if abs(back - P) > 1e-6 * P:
                return {"reproduced": True, "key": "standard atmosphere: pressure round trip off by more than 1e-6 relative", "detail": f"P={P} -> {back}"}
        if "pressure_from_altitude" in job or "monotone" in job:
            z = m.get("z", m.get("z0", 5.0))
            P = float(mod.us_std_atm_pressure_from_altitude(z))
            if "> 0" in ob and not P > 0:
                return {"reproduced": True, "key": "standard atmosphere: non-positive pressure", "detail": f"z={z}: P={P}"}
            if "decreasing" in ob:
                z1 = m.get("z1", z + 1)
                P1 = float(mod.us_std_atm_pressure_from_altitude(z1))
                if z < z1 and P1 > P * (1 + 3e-7):
                    return {"reproduced": True, "key": "standard atmosphere: pressure increases with altitude", "detail": f"P({z})={P} < P({z1})={P1}"}
            if "3e-7" in ob or "layer-top" in ob or "layer base" in ob:
                zs = np.linspace(0, 120, 200001)
                Ps = mod.us_std_atm_pressure_from_altitude(zs)
                r = Ps[1:] / Ps[:-1]
                if np.any(r > 1 + 3e-7):
                    k = int(np.argmax(r))
                    return {"reproduced": True, "key": "standard atmosphere: upward pressure step larger than 3e-7", "detail": f"P({zs[k]})={Ps[k]} -> P({zs[k+1]})={Ps[k+1]}"}
        # the claims about the layer constants / limits do not depend on the model point: probe the real
        # functions ON and NEXT TO the seven layer boundaries and at the limits
        from nuspacesim import constants as const

        R = float(const.earth_radius)
        Hb = [float(x) for x in np.asarray(mod.H_b)[1:-1]]
        if "limits" in job or "zero pressure" in ob or "infinite altitude" in ob or "defined:" in ob:
            # (a definedness counterexample -- e.g. a sentinel-layer entry reaching a division -- shows at the limits:
            # scalar and as one entry of an otherwise ordinary batch)
            with np.errstate(all="ignore"):
                p_inf = float(mod.us_std_atm_pressure_from_altitude(np.inf))
                z_0 = float(mod.us_std_atm_altitude_from_pressure(0.0))
                pb = np.asarray(mod.us_std_atm_pressure_from_altitude(np.array([1.0, np.inf, 30.0])), dtype=float)
                zb_ = np.asarray(mod.us_std_atm_altitude_from_pressure(np.array([1000.0, 0.0, 5.0])), dtype=float)
            if pb[1] != 0.0 or not np.all(np.isfinite(pb)) or zb_[1] != np.inf or not np.all(np.isfinite(zb_[[0, 2]])):
                return {"reproduced": True, "key": "standard atmosphere: zero pressure / infinite altitude inside a batch are not mapped onto each other",
                        "detail": f"P([1, inf, 30] km) = {pb.tolist()}, z([1000, 0, 5] Pa) = {zb_.tolist()}"}
            if p_inf != 0.0:
                return {"reproduced": True, "key": "standard atmosphere: infinite altitude does not map to zero pressure", "detail": f"P(inf) = {p_inf}"}
            if z_0 != np.inf:
                return {"reproduced": True, "key": "standard atmosphere: zero pressure does not map to infinite altitude", "detail": f"z(0) = {z_0}"}
        for H in Hb:
            zb = R * H / (R - H)
            near = [zb]
            for _ in range(3):
                near = [np.nextafter(near[0], -np.inf)] + near + [np.nextafter(near[-1], np.inf)]
            near = np.array(sorted(set(near + [zb - 1e-7, zb - 1e-5, zb - 1e-4, zb - 2e-4, zb + 1e-7, zb + 1e-5])))
            Ps = mod.us_std_atm_pressure_from_altitude(near)
            if np.any(~(Ps > 0)):
                return {"reproduced": True, "key": "standard atmosphere: non-positive pressure", "detail": f"near boundary z={zb}: {Ps.tolist()}"}
            up = Ps[1:] / Ps[:-1]
            if np.any(up > 1 + 3e-7):
                k = int(np.argmax(up))
                return {"reproduced": True, "key": "standard atmosphere: upward pressure step larger than 3e-7 at a layer boundary",
                        "detail": f"geopotential boundary {H} km' (z = {zb} km): P({near[k]!r}) = {Ps[k]!r} -> P({near[k+1]!r}) = {Ps[k+1]!r} (relative step {up[k]-1:.3g})"}
            back = mod.us_std_atm_altitude_from_pressure(Ps)
            err = np.abs(back - near)
            if np.any(err > 1e-6):
                k = int(np.argmax(err))
                return {"reproduced": True, "key": "standard atmosphere: altitude round trip off by more than 1e-6 km next to a layer boundary",
                        "detail": f"boundary {H} km': z = {near[k]!r} -> P = {Ps[k]!r} -> z = {back[k]!r} (error {err[k]:.3g} km)"}
    return {"reproduced": False, "key": None, "detail": "real code satisfies the predicate at the model point, at the limits and next to the layer boundaries"}


VALIDATE_JOB = "atmosphere: pressure_from_altitude"


def validate(seed, tier):
    import numpy as np

    from nuspacesim.simulation.atmosphere import pressure as A

    def sampler(rng):
        return {"z": float(rng.uniform(0, 120))}

    def real(v):
        return {"P": float(A.us_std_atm_pressure_from_altitude(v["z"]))}

    return harness.validate(forward_run("atmosphere"), sampler, real, 60, seed, rel=1e-9)


MANIFEST_ENTRY = {
    "level_text": "Both shipped copies of us_std_atm_pressure_from_altitude / us_std_atm_altitude_from_pressure are executed symbolically (scalar and length-2 array, all 8 layers, every layer pair): on every path the two copies build identical EUF terms (same uninterpreted operations, operands and order, no constant folding -> bit-for-bit agreement); the layer selected by the loops is the last j with H_b[j] <= h resp. P_b[j] >= P; pressure is positive, bounded by the layer base, strictly decreasing inside a layer and never below the layer-top value; the layer formula at each layer top is within 3e-7 (relative) of the next tabulated base pressure (interval enclosures); the same-layer round trip is the exact identity in both directions; where the round trip crosses a layer boundary (a point just below a boundary whose pressure the inverse assigns to the next layer, or a pressure just above a tabulated base pressure that the forward function assigns to the next layer) it lands in a neighbouring layer only and stays within 1e-6 km resp. 1e-6 relative for every such point (tangent-line / Bernoulli instances for exp, log, pow; the bound is tight: 7e-7 km is refuted at the 84.852 km boundary); zero pressure <-> infinite altitude.",
    "level_note": "REAL arithmetic with Ackermannised exp/log/pow (the tolerances are established for the exact real-valued formulas with the tabulated double constants). NOT established: libm / IEEE rounding on top of that (probed by the replay on and next to every boundary, +-3 ulp, not solved).",
    "technique": "symbolic execution of the real NumPy source + z3 qfnra-nlsat (Ackermannised exp/log/pow with interval enclosures, convexity instances on the cross-layer paths); EUF shadow-term identity for the two copies",
}
