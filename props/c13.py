"""C13 -- target-mode geometry and the dark-sky cut."""
from __future__ import annotations

from fractions import Fraction as Fr

import numpy as _np
import z3

from symnp import core, harness, load
from symnp.arr import SymArray, symarr
from symnp.core import PI, SV
from symnp.shim import NP

ID = "C13"
META = {
    "bounds": {
        "quick": "N=2 sampled instants (all 9 horizon/volume keep patterns); source altitude per instant a symbolic angle in [-pi/2, pi/2]; detector altitude, angle from limb, start time t0 and duration T symbolic; dark-sky cut on N=2 times with sun/moon altitudes, phase angle and the three thresholds symbolic",
        "thorough": "N=3 instants; second solver",
    },
    "outside_bounds": ["astropy's coordinate transformations and ephemerides (ERFA C library, IERS data): the source altitude, sun/moon altitudes and phase angle at each instant are free symbols", "IEEE rounding", "N > 3"],
    "stubs": ["ToOEvent -> object with a symbolic event time and localcoords(times) returning one symbolic altitude angle per instant", "astropy.time.TimeDelta / Time -> affine symbolic times (Time + TimeDelta adds the values)",
              "ToOEvent.get_sun / get_moon / moon_phase_angle -> symbolic arrays (one symbol per time)"],
    "assumptions": ["REAL mode with algebraised trigonometry (angles as unit-circle points, monotonicity of cos/sin on principal branches)", "0 < angle_from_limb < horizon nadir angle; detector altitude > 0"],
}
LEDGER = {"quick": 248, "thorough": 420}


class TimeStub:
    """astropy Time / TimeDelta stand-in: an array of symbolic values with a format tag."""

    def __init__(self, value, format=None, scale=None):
        self.value = value if isinstance(value, SymArray) else (SymArray(value) if isinstance(value, (list, tuple)) else value)
        self.format = format

    def __add__(self, o):
        return TimeStub(self.value + o.value, "time")

    __radd__ = __add__

    def __getitem__(self, k):
        return TimeStub(self.value[k], self.format)

    def __len__(self):
        return len(self.value)

    @property
    def shape(self):
        return self.value.shape


def _load():
    return load.load("nuspacesim.simulation.geometry.region_geometry", {"TimeDelta": TimeStub})


def _mk_geom(C, ns, N):
    G = ns["RegionGeomToO"]
    g = object.__new__(G)
    R = SV.of(ns["R_earth"].to(ns["u"].km).value)
    h = z3.Real("det_alt")
    limb = core.free_angle("limb")
    T, t0 = z3.Real("T_obs"), z3.Real("t0")
    C.assume(h > 0, T > 0)
    g.earth_radius = R
    g.core_alt = R + SV(t=h)
    g.config = type("Cfg", (), {"simulation": type("S", (), {"angle_from_limb": limb})()})()
    g.sourceOBSTime = SV(t=T)
    g.alphaHorizon = 0.5 * ns["np"].pi - ns["np"].arccos(g.earth_radius / g.core_alt)  # as in __init__
    C.assume(limb.t > 0, (limb < g.alphaHorizon).term())  # compared through the shim: monotonicity instance recorded
    alts = [core.free_angle(f"alt{i}") for i in range(N)]
    for a in alts:
        C.assume(a.t >= -PI / 2, a.t <= PI / 2)
    seen = {}

    class Too:
        eventtime = TimeStub(SV(t=t0), "isot")

        def localcoords(self, times):
            seen["times"] = times
            n = len(times)
            alt = type("Alt", (), {"rad": SymArray(alts[:n]), "deg": SymArray([core.sv_degrees(a) for a in alts[:n]])})()
            az = type("Az", (), {"deg": symarr([f"az{i}" for i in range(n)])})()
            return type("LC", (), {"alt": alt, "az": az})()

    g.too_source = Too()
    return g, R, h, limb, T, t0, alts, seen


def throw_run(N):
    def run(C):
        ns = _load()
        g, R, h, limb, T, t0, alts, seen = _mk_geom(C, ns, N)
        stored = {}
        out = g(N, store=lambda n, c: stored.update(dict(zip(n, c))))
        beta, theta, L, times = out
        r = g.core_alt.term()
        Rt = R.term()
        claims = {}
        tv = g.times.value
        claims["N instants"] = z3.BoolVal(len(tv) == N)
        for i in range(N):
            claims[f"instant {i} == t0 + T * {i}/{N} (equally spaced over [t0, t0+T))"] = SV.of(tv[i]).term() == t0 + T * core.rv(Fr(i, N))
        claims["source position evaluated at exactly those instants"] = z3.BoolVal(seen.get("times") is g.times)
        # which events were kept on this path
        hm = [bool(x) for x in g.horizon_mask.a]
        hk = [i for i in range(N) if hm[i]]
        vm = [bool(x) for x in g.volume_mask.a]
        kept = [i for k, i in enumerate(hk) if vm[k]]
        ah = g.alphaHorizon.t
        # reference limit angle: emergence angle of the line of sight at (horizon - limb)
        lim = SV.of(g.get_beta_angle(g.alphaHorizon - limb))
        blim = z3.If(42 * PI / 180 <= lim.t, 42 * PI / 180, lim.t)
        for i in range(N):
            alpha = PI / 2 + alts[i].t
            occ = alpha < ah
            sa, ca = core.sincos(SV.of(g.sourceNadRad[i]))
            if i in hk:
                b = SV.of(g.sourcebeta[hk.index(i)])
                sb, cb = core.sincos(b)
                claims[f"instant {i}: emergence angle from the triangle: cos(beta) == (r/R) sin(alpha), beta in [0, pi/2]"] = z3.And(cb * Rt == r * sa, b.t >= 0, b.t <= PI / 2)
                claims[f"instant {i}: kept exactly when occulted and beta < min(42 deg, limit from the angle from the limb)"] = z3.BoolVal(i in kept) == z3.And(occ, b.t < blim)
            else:
                claims[f"instant {i}: dropped exactly when the source is not occulted by the Earth"] = z3.Not(occ)
        claims["returned tuple has one entry per kept instant in every component"] = z3.BoolVal(len(beta) == len(theta) == len(L) == len(times.value if isinstance(times, TimeStub) else times) == len(kept))
        claims["stored columns are beta_rad, theta_rad, path_len, times"] = z3.BoolVal(list(stored) == ["beta_rad", "theta_rad", "path_len", "times"])
        for k, i in enumerate(kept):
            alpha_t = SV.of(theta[k])
            b = SV.of(beta[k])
            Lk = SV.of(L[k]).term()
            tk = SV.of((times.value if isinstance(times, TimeStub) else times)[k]).term()
            sa, ca = core.sincos(alpha_t)
            sb, cb = core.sincos(b)
            claims[f"kept {k}: components aligned (nadir angle, emergence angle and time belong to instant {i})"] = z3.And(
                alpha_t.t == PI / 2 + alts[i].t, b.t == SV.of(g.sourcebeta[hk.index(i)]).t, tk == t0 + T * core.rv(Fr(i, N)))
            claims[f"kept {k}: triangle R^2 == r^2 + L^2 - 2 r L cos(alpha)"] = Rt * Rt == r * r + Lk * Lk - 2 * r * Lk * ca
            claims[f"kept {k}: triangle r^2 == R^2 + L^2 + 2 R L sin(beta)"] = r * r == Rt * Rt + Lk * Lk + 2 * Rt * Lk * sb
            claims[f"kept {k}: path length > 0"] = Lk > 0
        inputs = {"det_alt": h, "limb": limb.t, "T_obs": T, "t0": t0}
        inputs.update({f"alt{i}": alts[i].t for i in range(N)})
        return harness.Out(claims=claims, inputs=inputs, info={"kept": kept})

    return run


def cut_run(N):
    def run(C):
        ns = load.load("nuspacesim.simulation.geometry.too")
        Too = ns["ToOEvent"]
        t = object.__new__(Too)
        s, m, p = z3.Real("sun_alt_cut"), z3.Real("moon_alt_cut"), z3.Real("moon_min_phase_angle_cut")
        s2 = z3.Real("sun_alt_cut2")
        sun, moon, ph = (symarr([f"{n}{i}" for i in range(N)]) for n in ("sun", "moon", "phase"))
        calls = []

        class Times:
            """array of N event times (astropy Time stand-in): indexing, size, isscalar, len, iteration"""

            def __init__(self, ids, scalar=False):
                self.ids, self.isscalar = list(ids), scalar

            size = property(lambda self: len(self.ids))
            shape = property(lambda self: () if self.isscalar else (len(self.ids),))

            def __len__(self):
                if self.isscalar:
                    raise TypeError("scalar Time has no len()")
                return len(self.ids)

            def __getitem__(self, k):
                if isinstance(k, (int, _np.integer)):
                    return Times([self.ids[k]], True)
                return Times(list(_np.array(self.ids)[k]))

            def __iter__(self):
                return iter(Times([i], True) for i in self.ids)

        def at(arr, time):
            # an ephemeris value belongs to the time it is evaluated at
            calls.append(list(time.ids))
            return arr.a[time.ids[0]] if time.isscalar else SymArray(arr.a[list(time.ids)].copy(), "float")

        def body(arr):
            def f(time):
                r_ = at(arr, time)
                return type("B", (), {"alt": type("A", (), {"rad": r_, "deg": NP.degrees(r_)})()})()

            return f

        t.get_sun, t.get_moon = body(sun), body(moon)
        t.moon_phase_angle = lambda time: type("Q", (), {"value": at(ph, time)})()
        TIMES = Times(range(N))

        def with_cuts(sc, mc, pc):
            t.sun_alt_cut, t.moon_alt_cut, t.MoonMinPhaseAngleCut = SV(t=sc), SV(t=mc), SV(t=pc)
            return t.sun_moon_cut(TIMES)

        dark = with_cuts(s, m, p)
        claims = {"one flag per time": z3.BoolVal(len(SymArray(dark).a.reshape(-1)) == N)}
        for i in range(N):
            ref = z3.And(z3.Real(f"sun{i}") < s, z3.Or(z3.Real(f"moon{i}") < m, z3.Real(f"phase{i}") > p))
            claims[f"[{i}] dark == sun below its limit and (moon below its limit or phase angle above the minimum)"] = core._b(dark[i]).term() == ref
        d2 = with_cuts(s2, m, p)
        m2, p2 = z3.Real("moon_alt_cut2"), z3.Real("phase_cut2")
        d3, d4 = with_cuts(s, m2, p), with_cuts(s, m, p2)
        for i in range(N):
            di = core._b(dark[i]).term()
            claims[f"[{i}] monotone: a higher sun limit never removes a dark time"] = z3.Implies(z3.And(s <= s2, di), core._b(d2[i]).term())
            claims[f"[{i}] monotone: a higher moon limit never removes a dark time"] = z3.Implies(z3.And(m <= m2, di), core._b(d3[i]).term())
            claims[f"[{i}] monotone: a lower minimum phase angle never removes a dark time"] = z3.Implies(z3.And(p2 <= p, di), core._b(d4[i]).term())
        inputs = {"sun_alt_cut": s, "moon_alt_cut": m, "moon_min_phase_angle_cut": p}
        for i in range(N):
            for n in ("sun", "moon", "phase"):
                inputs[f"{n}{i}"] = z3.Real(f"{n}{i}")
        return harness.Out(claims=claims, inputs=inputs)

    return run


def _throw_sampler(N):
    import math

    def s(rng):
        h = float(10 ** rng.uniform(0, 3))
        R = 6378.1
        aH = math.pi / 2 - math.acos(R / (R + h))
        v = {"det_alt": h, "limb": float(rng.uniform(0.02, 0.98) * aH), "T_obs": float(rng.uniform(10, 1e5)), "t0": float(rng.uniform(0, 1e6))}
        for i in range(N):
            v[f"alt{i}"] = -math.pi / 2 + float(rng.uniform(0.0, 1.4)) * aH  # nadir angle from 0 to beyond the horizon
            v[f"az{i}"] = float(rng.uniform(0, 360))
        return v

    return s


TIMES_NS = (1, 2, 3, 7, 10, 49, 61, 100)


def times_run(N):
    """The real generate_times(N) for a concrete count N (the smallest N for which 1/(1/N) > N in IEEE double is 49)
    with symbolic start time and duration: N instants, instant i == t0 + T i/N, and -- when the implementation builds
    the grid with a float-step np.arange -- the floating-point side condition that NumPy's IEEE length
    ceil((stop - start)/step) equals the exact length for EVERY duration in [1, 1e7] s (QF_FP query on the operations
    the code performed, taken from the EUF shadow of the arange operands)."""

    def run(C):
        C.euf = True
        ns = _load()
        G = ns["RegionGeomToO"]
        g = object.__new__(G)
        T, t0 = z3.Real("T_obs"), z3.Real("t0")
        C.assume(T >= 1, T <= 10**7)
        g.sourceOBSTime = SV(t=T)
        g.too_source = type("Too", (), {"eventtime": TimeStub(SV(t=t0), "isot")})()
        ev0 = len(getattr(C, "arange_calls", []))
        out = g.generate_times(N)
        tv = out.value
        claims = {f"generate_times({N}): exactly {N} instants": z3.BoolVal(len(tv) == N)}
        if len(tv) == N:
            claims[f"generate_times({N}): instant i == t0 + T i/{N} for every i (equally spaced, first at t0, last before t0 + T)"] = z3.And(
                *[SV.of(tv[i]).term() == t0 + T * core.rv(Fr(i, N)) for i in range(N)])
        info = {}
        for ev in getattr(C, "arange_calls", [])[ev0:]:
            r, mdl, dt = harness.arange_fp_check(ev, {"T_obs": (1.0, 1e7), "t0": (0.0, 1e9)}, timeout_ms=120000)
            nm = f"generate_times({N}): the float-step range has its exact length {ev[4]} in IEEE arithmetic for every duration in [1, 1e7] s"
            if r == "sat":
                nm += f" [counterexample T_obs={mdl.get('T_obs', 86400.0)!r}]"
            info[nm] = {"verdict": r, "model": mdl, "time_s": round(dt, 2)}
            if r == "unknown":
                raise core.HarnessError(f"floating-point side condition of np.arange undecided: {mdl}")
            claims[nm] = z3.BoolVal(r == "unsat")
        return harness.Out(claims=claims, inputs={"T_obs": T, "t0": t0}, info=info)

    return run


def job_times(N, tier):
    return harness.run_job(f"RegionGeomToO.generate_times(int N={N})", times_run(N), timeout_ms=30000, twin=False)


def job_throw(N, tier):
    return harness.run_job(f"RegionGeomToO.throw(N={N})", throw_run(N), timeout_ms=120000 if tier == "quick" else 600000, second=(tier == "thorough"), prune_timeout_ms=5000,
                           witness=(_throw_sampler(N), 120))


def job_cut(N, tier):
    return harness.run_job(f"ToOEvent.sun_moon_cut(N={N})", cut_run(N), timeout_ms=30000, second=(tier == "thorough"))


def jobs(tier, seed):
    n = 2 if tier == "quick" else 3
    return [("throw", "job_throw", {"N": n, "tier": tier}), ("throw1", "job_throw", {"N": 1, "tier": tier}), ("cut", "job_cut", {"N": 2, "tier": tier})] + [
        (f"times{k}", "job_times", {"N": k, "tier": tier}) for k in TIMES_NS]


def replay(v):
    """Real RegionGeomToO with a stubbed localcoords (astropy transformations are outside the claim)."""
    import numpy as np

    job, ob = v.get("job", ""), v["obligation"]
    m = {k: x for k, x in (v.get("model") or {}).items() if x is not None}
    if job.startswith("ToOEvent.sun_moon_cut"):
        from nuspacesim.simulation.geometry.too import ToOEvent

        import astropy.units as au
        from astropy.time import Time

        t = object.__new__(ToOEvent)
        N = int(job.split("N=")[1].rstrip(")"))
        A = lambda n: np.array([m.get(f"{n}{i}", 0.0) for i in range(N)], dtype=float)  # noqa
        times = Time("2022-06-02T01:00:00", format="isot", scale="utc") + np.arange(N) * au.hour

        def at(n, time):  # the ephemeris value of the time(s) asked for (real astropy Time objects)
            k = np.rint((np.atleast_1d(time.jd) - times[0].jd) * 24).astype(int)
            return A(n)[k] if not time.isscalar else A(n)[k][0]

        t.get_sun = lambda time: type("B", (), {"alt": type("A", (), {"rad": at("sun", time), "deg": np.degrees(at("sun", time))})()})()
        t.get_moon = lambda time: type("B", (), {"alt": type("A", (), {"rad": at("moon", time), "deg": np.degrees(at("moon", time))})()})()
        t.moon_phase_angle = lambda time: type("Q", (), {"value": at("phase", time)})()
        t.sun_alt_cut, t.moon_alt_cut, t.MoonMinPhaseAngleCut = m.get("sun_alt_cut", 0.0), m.get("moon_alt_cut", 0.0), m.get("moon_min_phase_angle_cut", 0.0)
        got = np.broadcast_to(t.sun_moon_cut(times), (N,))
        ref = (A("sun") < t.sun_alt_cut) & ((A("moon") < t.moon_alt_cut) | (A("phase") > t.MoonMinPhaseAngleCut))
        if not np.array_equal(np.asarray(got, dtype=bool), ref):
            return {"reproduced": True, "key": "sun_moon_cut differs from the documented dark-sky condition", "detail": f"got {np.asarray(got).tolist()}, reference {ref.tolist()} at {m}"}
        return {"reproduced": False, "key": None, "detail": "real cut agrees with the reference"}
    if job.startswith("RegionGeomToO.generate_times(int N="):
        import re

        from astropy.time import Time

        from nuspacesim.simulation.geometry.region_geometry import RegionGeomToO

        N = int(job.split("N=")[1].rstrip(")"))
        mt = re.search(r"T_obs=([0-9.eE+-]+)", ob)
        cands = ([float(mt.group(1))] if mt else []) + [float(m.get("T_obs", 86400.0)), 86400.0, 1.0]
        for T in cands:
            g = object.__new__(RegionGeomToO)
            g.sourceOBSTime = T
            g.too_source = type("T", (), {"eventtime": Time("2022-06-02T01:00:00", format="isot", scale="utc")})()
            t = g.generate_times(N)
            dt = (t - g.too_source.eventtime).sec
            want = np.arange(N) / N * T
            if len(dt) != N:
                return {"reproduced": True, "key": "generate_times(N) does not return N instants", "detail": f"N = {N}, duration {T!r} s: {len(dt)} instants (last at t0 + {dt[-1]!r} s; the window is [t0, t0 + T))"}
            if not np.allclose(dt, want, rtol=1e-12, atol=1e-9 * T):
                k = int(np.argmax(np.abs(dt - want)))
                return {"reproduced": True, "key": "generate_times(N): instants are not t0 + T i/N", "detail": f"N = {N}, duration {T!r} s: instant {k} at t0 + {dt[k]!r} s, expected {want[k]!r} s"}
        return {"reproduced": False, "key": None, "detail": f"N = {N}: N equally spaced instants for durations {cands}"}
    if job.startswith("RegionGeomToO.throw"):
        from astropy.time import Time

        from nuspacesim.simulation.geometry.region_geometry import RegionGeomToO

        N = int(job.split("N=")[1].rstrip(")"))
        g = object.__new__(RegionGeomToO)
        g.earth_radius = 6378.1
        h = max(m.get("det_alt", 525.0), 1e-3)
        g.core_alt = g.earth_radius + h
        g.alphaHorizon = 0.5 * np.pi - np.arccos(g.earth_radius / g.core_alt)
        limb = min(max(m.get("limb", 0.1), 1e-6), g.alphaHorizon * 0.999)
        g.config = type("Cfg", (), {"simulation": type("S", (), {"angle_from_limb": limb})()})()
        g.sourceOBSTime = m.get("T_obs", 86400.0)
        alts = np.array([m.get(f"alt{i}", -1.2) for i in range(N)], dtype=float)

        class Too:
            eventtime = Time("2022-06-02T01:00:00", format="isot", scale="utc")

            def localcoords(self, times):
                return type("LC", (), {"alt": type("A", (), {"rad": alts, "deg": np.degrees(alts)})(), "az": type("Z", (), {"deg": alts * 0})()})()

        g.too_source = Too()
        with np.errstate(all="ignore"):
            beta, theta, L, times = g(N)
        alpha = 0.5 * np.pi + alts
        occ = alpha < g.alphaHorizon
        b_all = np.arccos(np.clip(g.core_alt / g.earth_radius * np.sin(alpha), -1, 1))
        blim = min(np.radians(42), np.arccos(g.core_alt / g.earth_radius * np.sin(g.alphaHorizon - limb)))
        keep = occ & (b_all < blim)
        bad = None
        if len(beta) != keep.sum():
            bad = f"{len(beta)} instants kept, reference keeps {int(keep.sum())} (alt={alts.tolist()}, limb={limb}, h={h})"
        else:
            r, R = g.core_alt, g.earth_radius
            if not np.allclose(theta, alpha[keep]) or not np.allclose(beta, b_all[keep]):
                bad = "kept components are not aligned with the kept instants"
            elif not np.allclose(R * R, r * r + L * L - 2 * r * L * np.cos(theta), rtol=1e-9) or not np.allclose(r * r, R * R + L * L + 2 * R * L * np.sin(beta), rtol=1e-9):
                bad = f"triangle relation violated: L={L.tolist()}"
            dt = (times - Too.eventtime).sec
            want = (np.arange(N) / N * g.sourceOBSTime)[keep]
            if bad is None and not np.allclose(dt, want, atol=1e-6):
                bad = f"times {dt.tolist()} vs {want.tolist()}"
        if bad:
            return {"reproduced": True, "key": "target geometry: " + bad[:60], "detail": bad}
    return {"reproduced": False, "key": None, "detail": "real code satisfies the predicate at the model point"}


MANIFEST_ENTRY = {
    "level_text": "Bounded symbolic execution of the real RegionGeomToO.__call__/throw/generate_times/get_beta_angle/get_path_length/event_mask with the source altitude at each of N=2 (quick) / 3 (thorough) instants, the detector altitude, the angle from the limb, start time and duration symbolic: nlsat proves the instants are t0 + T i/N, that an instant is kept exactly when the source is occulted and its emergence angle is below min(42 deg, limb limit), the two triangle relations and cos(beta) = (r/R) sin(alpha) for the kept path length, and the alignment of the returned (beta, alpha, L, times) for every horizon/volume keep pattern; the real ToOEvent.sun_moon_cut is proved equal to the documented Boolean condition and monotone in each threshold.",
    "level_note": "The ephemeris stubs are functions of the time they are asked for (a cut evaluated at one representative time is a counterexample). The time grid is additionally examined for N in {1,2,3,7,10,49,61,100} with symbolic start and duration: when the implementation builds it with a float-step np.arange, the IEEE length ceil((stop-start)/step) is compared with the exact length by a QF_FP query (cvc5 binary; z3 fallback) over every duration in [1, 1e7] s, built from the operations the code performed (EUF shadow of the operands); other N are outside. REAL arithmetic with algebraised trigonometry; astropy coordinate transforms / ephemerides are stubbed by free symbols per instant (their correctness is outside the claim); that the cut applies to optical only and on the kept times is established in C03.",
    "technique": "symbolic execution of the real NumPy source (DFS over keep patterns) + z3 qfnra-nlsat with algebraised trigonometry",
}
