"""Shared harness for the control skeleton of the real CphotAng.run (C08 altitude scaling,
C09 clouds).  The 600-line float32 numeric helpers are replaced by deterministic
uninterpreted functions of their symbolic arguments returning K shower segments; the
body of run() itself -- clamping of beta, cloud early exit and mask, reductions, the
altitude scaling with the real distance_to_detector -- executes from /repo's source."""
from __future__ import annotations

from fractions import Fraction as Fr

import numpy as _np
import z3

from symnp import core, load
from symnp.arr import SymArray
from symnp.core import SV, ctx
from symnp.shim import NP, OpaqueIndex


def _key(x):
    if isinstance(x, SymArray):
        return "[" + ",".join(_key(e) for e in x.a.reshape(-1)) + "]"
    if isinstance(x, SV):
        return x.term().sexpr() if not (x.t is None and isinstance(x.c, float)) else str(x.c)
    if isinstance(x, OpaqueIndex):
        return f"{x.what}({_key(x.arr)})"
    if isinstance(x, (tuple, list)):
        return "(" + ",".join(_key(e) for e in x) + ")"
    if isinstance(x, _np.ndarray):
        return _key(SymArray(x))
    try:
        return _key(SV.of(x))
    except Exception:
        return repr(x)


class UF:
    """Deterministic uninterpreted helper: same (symbolic) arguments -> same symbols."""

    table = {}
    counter = [0]

    @classmethod
    def reset(cls):
        cls.table = {}
        cls.counter = [0]

    @classmethod
    def call(cls, name, args, shapes, positive=False):
        k = (name, _key(args))
        if k not in cls.table:
            cls.counter[0] += 1
            uid = cls.counter[0]
            outs = []
            for oi, shp in enumerate(shapes):
                if shp == ():
                    t = z3.Real(f"{name}{uid}_o{oi}")
                    if positive:
                        ctx().assume(t > 0)
                    outs.append(SV(t=t))
                else:
                    a = _np.empty(shp, dtype=object)
                    for idx in _np.ndindex(*shp):
                        t = z3.Real(f"{name}{uid}_o{oi}_" + "_".join(map(str, idx)))
                        if positive:
                            ctx().assume(t > 0)
                        a[idx] = SV(t=t)
                    outs.append(SymArray(a, "float"))
            cls.table[k] = outs
        outs = cls.table[k]
        # hand out copies so that in-place edits by the caller (SPYield[mask] = 0) do not leak
        return [o.copy() if isinstance(o, SymArray) else o for o in outs]


def load_cphot():
    sp = load.load("nuspacesim.simulation.eas_optical.shower_properties")
    dg = load.load("nuspacesim.simulation.eas_optical.detector_geometry", {"propagation_angle": sp["propagation_angle"]})
    cp = load.load("nuspacesim.simulation.eas_optical.cphotang", {"distance_to_detector": dg["distance_to_detector"]})
    return sp, dg, cp


def make_cphot(cp, det_alt, K=3, W=2, zs_increasing=True):
    """CphotAng object with stubbed helpers (K segments, W wavelength bins)."""
    Cls = cp["CphotAng"]
    o = object.__new__(Cls)
    o.detector_altitude = det_alt
    o.dtype = NP.float32
    o.orbit_height = SV.of(_np.float32(525.0))
    o.zmax = o.orbit_height
    o.RadE = SV.of(_np.float32(6378.14))
    o.pi = SV.of(_np.float32(3.1415926))
    o.calls = []

    def stub(name, shapes, positive=False):
        def f(*args):
            o.calls.append((name, args))
            r = UF.call(name, args, shapes, positive)
            return r[0] if len(r) == 1 else tuple(r)

        return f

    o.theta_view = stub("theta_view", [()])
    o.slant_depth = stub("slant_depth", [(K,)] * 6)

    def valid_arrays(*args):
        o.calls.append(("valid_arrays", args))
        r = UF.call("valid_arrays", args, [(K,)] * 8)
        zs = r[0]
        if zs_increasing:
            for k in range(K - 1):
                ctx().assume(zs.a[k].t < zs.a[k + 1].t)  # altitude steps increase along the track
        return tuple(r)

    o.valid_arrays = valid_arrays
    o.e0 = stub("e0", [(K,)])
    o.cherenkov_threshold_angle = stub("cherenkov_threshold_angle", [(K,), (K,)], positive=True)
    o.tracklen = stub("tracklen", [(K,)], positive=True)
    o.d_to_det = stub("d_to_det", [(K,)])
    o.sphoton_yeild = stub("sphoton_yeild", [(K, W)])
    o.photon_sum = stub("photon_sum", [()])
    o.cher_ang_sig_i = stub("cher_ang_sig_i", [()])
    o.cherenkov_area = stub("cherenkov_area", [()], positive=True)
    return o
