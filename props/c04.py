"""C04 -- tau energy sampling is the exact inverse transform of the propagation tables."""
from __future__ import annotations

import contextlib
from fractions import Fraction as Fr

import numpy as _np
import z3

from props import tables
from symnp import core, harness, load, stubs
from symnp.arr import SymArray, symarr
from symnp.core import SV
from symnp.shim import NP

ID = "C04"
META = {
    "bounds": {
        "quick": "one 2x2 (log E, beta) table cell with symbolic axes and four arbitrary non-decreasing corner CDF rows of M=3 nodes (first 0, last within 1e-15 of 1), symbolic query point in the cell, u strictly inside the interpolated row; 2 events for monotonicity; wrapper: N=2 events, all 9 below/inside/above patterns (M=2); data: all rows of the three shipped CDF tables",
        "thorough": "M=4 corner rows; wrapper N=3 (27 patterns); second solver",
    },
    "outside_bounds": ["rows longer than M nodes are covered only through the row-local structure of the code (each output depends on one bracket)", "tables with more than one cell per axis in the symbolic part (the cell search is scipy's, stubbed)",
                       "np.nditer buffer chunking (stub yields one chunk; 8192-element boundary is C code)", "IEEE rounding"],
    "stubs": ["scipy.interpolate.interpn -> reference multilinear interpolation, ValueError outside the axes unless bounds_error=False; records its arguments",
              "np.nditer -> one chunk", "np.random.uniform -> symbolic draws", "NssGrid -> GridStub"],
    "assumptions": ["REAL mode", "10**x Ackermannised (strictly monotone, positive)", "table preconditions (rows non-decreasing from 0 to 1, axes strictly increasing) -- established for the shipped data by the per-row queries"],
}
LEDGER = {"quick": 1075, "thorough": 1075}
EPS32 = Fr(1, 2**23)


def _load():
    ins = load.load("nuspacesim.utils.interp", {"interp1d": stubs.interp1d, "NssGrid": stubs.GridStub})
    cns = load.load("nuspacesim.utils.cdf", {"interpn": stubs.interpn, "vec_1d_interp": ins["vec_1d_interp"], "NssGrid": stubs.GridStub})
    tns = load.load("nuspacesim.simulation.taus.taus", {"grid_cdf_sampler": cns["grid_cdf_sampler"], "RegularGridInterpolator": stubs.RegularGridInterpolator, "NssGrid": stubs.GridStub})
    return ins, cns, tns


@contextlib.contextmanager
def fixed_draws(values):
    """np.random.uniform returns the given symbolic values (in order) instead of fresh draws."""
    q = list(values)
    old = NP.random.uniform

    def uni(low=0.0, high=1.0, size=None):
        n = size if isinstance(size, int) else (size[0] if size else 1)
        out = [q.pop(0) for _ in range(n)]
        return SymArray(out, "float")

    NP.random.uniform = uni
    try:
        yield
    finally:
        NP.random.uniform = old


def mk_cell(C, M, exact_last=False, pre=""):
    """2x2 cell of a CDF grid with symbolic axes and corner rows (pre: name prefix of the table entries)."""
    E = [z3.Real("E0"), z3.Real("E1")]
    B = [z3.Real("B0"), z3.Real("B1")]
    F = [z3.Real(f"frac{k}") for k in range(M)]
    C.assume(E[0] < E[1], B[0] < B[1], B[0] > 0, F[0] > 0, F[M - 1] <= 1)
    for k in range(M - 1):
        C.assume(F[k] < F[k + 1])
    data = _np.empty((2, 2, M), dtype=object)
    tol = z3.RealVal("1/1000000000000000")
    for i in range(2):
        for j in range(2):
            for k in range(M):
                c = z3.Real(f"{pre}cdf{i}{j}_{k}")
                data[i, j, k] = SV(t=c)
                if k:
                    C.assume(z3.Real(f"{pre}cdf{i}{j}_{k-1}") <= c)
            C.assume(z3.Real(f"{pre}cdf{i}{j}_0") == 0)
            if exact_last:
                C.assume(z3.Real(f"{pre}cdf{i}{j}_{M-1}") == 1)
            else:
                C.assume(z3.Real(f"{pre}cdf{i}{j}_{M-1}") >= 1 - tol, z3.Real(f"{pre}cdf{i}{j}_{M-1}") <= 1 + tol)
    g = stubs.GridStub(SymArray(data), [SymArray([SV(t=e) for e in E]), SymArray([SV(t=b) for b in B]), SymArray([SV(t=f) for f in F])],
                       ["log_e_nu", "beta_rad", "e_tau_frac"])
    return g, E, B, F


def _row_at(E, B, le, be, M, pre=""):
    """independent reference: bilinear blend of the four corner rows at (le, be)"""
    tx = (le - E[0]) / (E[1] - E[0])
    ty = (be - B[0]) / (B[1] - B[0])
    return [(1 - tx) * (1 - ty) * z3.Real(f"{pre}cdf00_{k}") + (1 - tx) * ty * z3.Real(f"{pre}cdf01_{k}") + tx * (1 - ty) * z3.Real(f"{pre}cdf10_{k}")
            + tx * ty * z3.Real(f"{pre}cdf11_{k}") for k in range(M)]


def sampler_run(M, n_events):
    def run(C):
        _ins, cns, _tns = _load()
        g, E, B, F = mk_cell(C, M)
        le, be = z3.Real("logE"), z3.Real("beta")
        C.assume(le >= E[0], le <= E[1], be >= B[0], be <= B[1])
        us = [z3.Real(f"u{i}") for i in range(n_events)]
        row = _row_at(E, B, le, be, M)
        for u in us:
            C.assume(u > row[0], u < row[M - 1])
        stubs.InterpRecorder.calls.clear()
        sample = cns["grid_cdf_sampler"](g)
        LE = SymArray([SV(t=le)] * n_events)
        BE = SymArray([SV(t=be)] * n_events)
        U = SymArray([SV(t=u) for u in us])
        z = sample(LE, BE, U)
        claims = {"one sample per event": z3.BoolVal(z.shape == (n_events,))}
        calls = [c for c in stubs.InterpRecorder.calls if c["fn"] == "interpn"]
        claims["interpolator gets the caller's (log_e_nu, beta), axes in that order, and raises out of range (bounds_error default)"] = z3.BoolVal(
            len(calls) == 1 and calls[0]["bounds_error"] is True and calls[0]["points"][0] is g["log_e_nu"] and calls[0]["points"][1] is g["beta_rad"]
            and all(SV.of(x).term().eq(le) for x in SymArray(calls[0]["xi"][0]).a.flat) and all(SV.of(x).term().eq(be) for x in SymArray(calls[0]["xi"][1]).a.flat))
        for i, u in enumerate(us):
            zi = z[i].term()
            claims[f"event {i}: F(z | E_nu, beta) == u for the bilinearly interpolated piecewise-linear CDF"] = z3.Or(*[
                z3.And(row[k] < u, u <= row[k + 1], F[k] <= zi, zi <= F[k + 1], (zi - F[k]) * (row[k + 1] - row[k]) == (u - row[k]) * (F[k + 1] - F[k]))
                for k in range(M - 1)])
            claims[f"event {i}: z inside the tabulated fraction range (0 < frac[0] <= z <= frac[-1] <= 1)"] = z3.And(zi >= F[0], zi <= F[M - 1], zi > 0, zi <= 1)
        if n_events == 2:
            claims["z non-decreasing in u"] = z3.Implies(us[0] <= us[1], z[0].term() <= z[1].term())
            claims["z strictly increasing in u (rows are strictly increasing between the brackets used)"] = z3.Implies(us[0] < us[1], z[0].term() < z[1].term())
        inputs = {"logE": le, "beta": be, "E0": E[0], "E1": E[1], "B0": B[0], "B1": B[1]}
        inputs.update({f"u{i}": u for i, u in enumerate(us)})
        inputs.update({f"frac{k}": F[k] for k in range(M)})
        for i in range(2):
            for j in range(2):
                for k in range(M):
                    inputs[f"cdf{i}{j}_{k}"] = z3.Real(f"cdf{i}{j}_{k}")
        return harness.Out(claims=claims, inputs=inputs, observe={"z": z})

    return run


def sampler_outside_run(which):
    def run(C):
        _ins, cns, _tns = _load()
        g, E, B, F = mk_cell(C, 2, exact_last=True)
        le, be, u = z3.Real("logE"), z3.Real("beta"), z3.Real("u0")
        C.assume(be >= B[0], be <= B[1], u > 0, u < 1)
        C.assume(le < E[0] if which == "below" else le > E[1])
        sample = cns["grid_cdf_sampler"](g)
        try:
            sample(SymArray([SV(t=le)]), SymArray([SV(t=be)]), SymArray([SV(t=u)]))
            raised = False
        except ValueError:
            raised = True
        return harness.Out(claims={f"energy {which} the table range is rejected with an error": z3.BoolVal(raised)}, inputs={"logE": le, "E0": E[0], "E1": E[1]})

    return run


def shape_mismatch_run():
    def run(C):
        _ins, cns, _tns = _load()
        g, E, B, F = mk_cell(C, 2, exact_last=True)
        sample = cns["grid_cdf_sampler"](g)
        try:
            sample(symarr(["le0", "le1"]), symarr(["b0"]), symarr(["u0", "u1"]))
            raised = False
        except RuntimeError:
            raised = True
        empty = sample(SymArray(_np.empty((0,), dtype=object)), SymArray(_np.empty((0,), dtype=object)), None)
        return harness.Out(claims={"mismatched input shapes are rejected": z3.BoolVal(raised), "empty batch gives an empty result": z3.BoolVal(len(empty) == 0)})

    return run


PAT = {"L": "below", "V": "inside", "H": "above"}


def wrapper_run(N, M=2):
    def run(C):
        _ins, cns, tns = _load()
        g, E, B, F = mk_cell(C, M, exact_last=True)
        T = object.__new__(tns["Taus"])
        T.tau_cdf_grid = g
        betas = symarr([f"beta{i}" for i in range(N)])
        les = symarr([f"logE{i}" for i in range(N)])
        us = symarr([f"u{i}" for i in range(N)])
        for i in range(N):
            C.assume(z3.Real(f"logE{i}") >= E[0], z3.Real(f"logE{i}") <= E[1], z3.Real(f"beta{i}") >= 0)
        # classify events (forks): below / inside / above the tabulated beta range
        pat = ""
        for i in range(N):
            b = z3.Real(f"beta{i}")
            if C.decide(b < B[0]):
                pat += "L"
            elif C.decide(b > B[1]):
                pat += "H"
            else:
                pat += "V"
        # u strictly inside the row the event uses
        for i in range(N):
            be = B[0] if pat[i] == "L" else z3.Real(f"beta{i}")
            if pat[i] != "H":
                row = _row_at(E, B, z3.Real(f"logE{i}"), be, M)
                C.assume(z3.Real(f"u{i}") > row[0], z3.Real(f"u{i}") < row[M - 1])
            else:
                C.assume(z3.Real(f"u{i}") > 0, z3.Real(f"u{i}") < 1)
        claims = {}
        tag = f"(pattern {pat})"
        try:
            Eexp = T.tau_energy(betas, les, us)
            err = None
        except Exception as e:  # noqa
            Eexp, err = None, e
        claims[f"explicit random numbers are accepted for any mix of in-range and out-of-range angles {tag}"] = z3.BoolVal(err is None)
        # single-event runs with the internal generator fed the same number
        single = []
        for i in range(N):
            with fixed_draws([us[i]] * 2):
                single.append(T.tau_energy(betas[i:i + 1], les[i:i + 1])[0])
        sample = cns["grid_cdf_sampler"](g)
        for i in range(N):
            p10 = core.exp10(les[i])
            if pat[i] == "H":
                claims[f"event {i} above the tabulated maximum: negligible energy eps32 * E_nu {tag}"] = single[i].term() == (SV(c=EPS32) * p10).term()
            else:
                be = SV(t=B[0]) if pat[i] == "L" else betas[i]
                zref = sample(SymArray([les[i]]), SymArray([be]), SymArray([us[i]]))[0]
                nm = "below the tabulated minimum: minimum-angle distribution" if pat[i] == "L" else "inside the table"
                claims[f"event {i} {nm}: E_tau = z(logE, beta, u) * E_nu {tag}"] = single[i].term() == (zref * p10).term()
                claims[f"event {i}: tau energy never exceeds the neutrino energy {tag}"] = single[i].term() <= p10.term()
            if Eexp is not None:
                claims[f"event {i}: explicit u gives the value the internal generator gives for that number {tag}"] = Eexp[i].term() == single[i].term()
        inputs = {"E0": E[0], "E1": E[1], "B0": B[0], "B1": B[1]}
        for i in range(N):
            for n in ("beta", "logE", "u"):
                inputs[f"{n}{i}"] = z3.Real(f"{n}{i}")
        return harness.Out(claims=claims, inputs=inputs, info={"pattern": pat})

    return run


def isolation_run():
    """Two Taus objects with DIFFERENT tables used one after the other in one process: each must sample
    from its own table (no state shared between objects), and a second call on the first object too."""

    def run(C):
        _ins, cns, tns = _load()
        M = 3  # with 2 nodes and exact end values every table gives the same row
        g1, E, B, F = mk_cell(C, M, exact_last=True, pre="A")
        g2, _E, _B, _F = mk_cell(C, M, exact_last=True, pre="B")
        Taus = tns["Taus"]
        T1, T2 = object.__new__(Taus), object.__new__(Taus)
        T1.tau_cdf_grid, T2.tau_cdf_grid = g1, g2
        le, be, u = z3.Real("logE"), z3.Real("beta"), z3.Real("u0")
        C.assume(le >= E[0], le <= E[1], be >= B[0], be <= B[1])
        for pre in ("A", "B"):
            row = _row_at(E, B, le, be, M, pre)
            C.assume(u > row[0], u < row[M - 1])
        args = lambda: (SymArray([SV(t=be)]), SymArray([SV(t=le)]), SymArray([SV(t=u)]))  # noqa
        e1 = T1.tau_energy(*args())
        e2 = T2.tau_energy(*args())
        e1b = T1.tau_energy(*args())
        p10 = core.exp10(SV(t=le))
        ref = {}
        for pre, g in (("A", g1), ("B", g2)):
            z = cns["grid_cdf_sampler"](g)(SymArray([SV(t=le)]), SymArray([SV(t=be)]), SymArray([SV(t=u)]))[0]
            ref[pre] = (z * p10).term()
        claims = {
            "first object samples its own table": e1[0].term() == ref["A"],
            "a second object with a different table samples ITS table (no state shared between objects)": e2[0].term() == ref["B"],
            "the first object is unaffected by the use of the second": e1b[0].term() == ref["A"],
        }
        return harness.Out(claims=claims, inputs={"logE": le, "beta": be, "u0": u})

    return run


def init_run():
    """The real Taus.__init__ for every shipped table version, with NssGrid.read replaced by a recorder: the CDF table
    (and the exit-probability table) it loads must be the files of the CONFIGURED version."""

    def run(C):
        import os

        reads = []

        class Rec(stubs.GridStub):
            @staticmethod
            def read(file, *a, **k):
                reads.append(os.path.basename(str(file)))
                return ("grid", os.path.basename(str(file)))

        _ins, cns, _t = _load()
        tns = load.load("nuspacesim.simulation.taus.taus", {"grid_cdf_sampler": cns["grid_cdf_sampler"], "RegularGridInterpolator": stubs.RegularGridInterpolator, "NssGrid": Rec})
        claims = {}
        for ver in ("1", "2", "3"):
            del reads[:]
            cfg = type("Cfg", (), {"simulation": type("S", (), {"tau_shower": type("TS", (), {"table_version": ver, "etau_frac": 0.5})()})()})()
            try:
                T = tns["Taus"](cfg)
                got_cdf, got_px, err = getattr(T, "tau_cdf_grid", None), getattr(T, "pexit_grid", None), None
            except Exception as ex:  # noqa
                got_cdf = got_px = None
                err = ex
            claims[f"Taus(table_version={ver!r}): the CDF table loaded is nu2tau_cdf.{ver}.h5"] = z3.BoolVal(err is None and got_cdf == ("grid", f"nu2tau_cdf.{ver}.h5"))
            claims[f"Taus(table_version={ver!r}): the exit-probability table loaded is nu2tau_pexit.{ver}.h5"] = z3.BoolVal(err is None and got_px == ("grid", f"nu2tau_pexit.{ver}.h5"))
        return harness.Out(claims=claims)

    return run


def job_init(tier):
    return harness.run_job("Taus.__init__ (table files per configured version)", init_run(), timeout_ms=10000, twin=False)


def job_isolation(tier):
    return harness.run_job("Taus.tau_energy (two objects, different tables)", isolation_run(), timeout_ms=60000, second=(tier == "thorough"))


def job_sampler(M, n_events, tier):
    return harness.run_job(f"grid_cdf_sampler(M={M},events={n_events})", sampler_run(M, n_events), timeout_ms=60000 if tier == "quick" else 600000,
                           second=(tier == "thorough"))


def job_outside(which, tier):
    return harness.run_job(f"grid_cdf_sampler(energy {which})", sampler_outside_run(which), timeout_ms=30000)


def job_shapes(tier):
    return harness.run_job("grid_cdf_sampler(shapes)", shape_mismatch_run(), timeout_ms=30000)


def job_wrapper(N, tier):
    return harness.run_job(f"Taus.tau_energy(N={N})", wrapper_run(N), timeout_ms=60000 if tier == "quick" else 600000, second=(tier == "thorough"))


def job_cdf(version, part, nparts):
    return harness.plain_job(f"data nu2tau_cdf.{version} part {part+1}/{nparts}", lambda: tables.check_cdf_table(version, part=part, nparts=nparts))


def jobs(tier, seed):
    M = 3 if tier == "quick" else 4
    out = [("s1", "job_sampler", {"M": M, "n_events": 1, "tier": tier}), ("s2", "job_sampler", {"M": M, "n_events": 2, "tier": tier}),
           ("s2small", "job_sampler", {"M": 2, "n_events": 2, "tier": tier}),
           ("ob", "job_outside", {"which": "below", "tier": tier}), ("oa", "job_outside", {"which": "above", "tier": tier}),
           ("sh", "job_shapes", {"tier": tier}), ("iso", "job_isolation", {"tier": tier}), ("init", "job_init", {"tier": tier}),
           ("w1", "job_wrapper", {"N": 1, "tier": tier}), ("w2", "job_wrapper", {"N": 2, "tier": tier}), ("w", "job_wrapper", {"N": 3, "tier": tier})]
    for v in ("1", "2", "3"):
        for part in range(4):
            out.append((f"cdf{v}.{part}", "job_cdf", {"version": v, "part": part, "nparts": 4}))
    return out


# ---------------------------------------------------------------------------------
_TAUS = {}


def _real_taus():
    if "t" not in _TAUS:
        from nuspacesim.config import NssConfig
        from nuspacesim.simulation.taus.taus import Taus

        _TAUS["t"] = Taus(NssConfig())
    return _TAUS["t"]


def replay(v):
    import numpy as np

    job, ob = v.get("job", ""), v["obligation"]
    if job.startswith("data "):
        return tables.replay_data(v)
    m = v.get("model") or {}
    if job.startswith("Taus.__init__"):
        # real constructor, real files: the grids held by the object against the files of the configured version read directly
        import warnings
        from importlib.resources import as_file, files

        from nuspacesim.config import NssConfig
        from nuspacesim.simulation.taus.taus import Taus
        from nuspacesim.utils.grid import NssGrid

        warnings.simplefilter("ignore")
        for ver in ("1", "2", "3"):
            cfg = NssConfig()
            cfg.simulation.tau_shower.table_version = ver
            T = Taus(cfg)
            for name, attr, kw in (("nu2tau_cdf", "tau_cdf_grid", {}), ("nu2tau_pexit", "pexit_grid", {"path": "/"})):
                with as_file(files("nuspacesim.data.nupyprop_tables") / f"{name}.{ver}.h5") as f:
                    want = NssGrid.read(f, format="hdf5", **kw)
                got = getattr(T, attr)
                if np.shape(got.data) != np.shape(want.data) or not np.array_equal(np.asarray(got.data), np.asarray(want.data)) or any(
                        np.shape(a) != np.shape(b) or not np.array_equal(a, b) for a, b in zip(got.axes, want.axes)):
                    return {"reproduced": True, "key": f"Taus(table_version): the {name} table held by the object is not the configured version's file",
                            "detail": f"table_version = {ver!r}: Taus.{attr} (shape {np.shape(got.data)}) differs from {name}.{ver}.h5 (shape {np.shape(want.data)})"}
        return {"reproduced": False, "key": None, "detail": "all three versions: both grids are the configured version's files"}
    if job.startswith("Taus.tau_energy") and "(pattern " in ob:
        pat = ob.split("(pattern ")[1].split(")")[0]
        T = _real_taus()
        bmin, bmax = float(T.tau_cdf_grid["beta_rad"][0]), float(T.tau_cdf_grid["beta_rad"][-1])
        bval = {"L": 0.0005, "V": 0.3, "H": 1.2}
        betas = np.array([bval[c] for c in pat])
        # an event that the model puts exactly on a table edge is replayed exactly on the real table's edge
        for i, c in enumerate(pat):
            b, b0, b1 = m.get(f"beta{i}"), m.get("B0"), m.get("B1")
            if c == "V" and b is not None and b0 is not None and abs(b - b0) <= 1e-12 * max(1.0, abs(b0)):
                betas[i] = bmin
            if c == "V" and b is not None and b1 is not None and abs(b - b1) <= 1e-12 * max(1.0, abs(b1)):
                betas[i] = bmax
        les = np.full(len(pat), 8.3)
        us = np.linspace(0.35, 0.65, len(pat))
        keep = (betas.copy(), les.copy(), us.copy())
        try:
            e = T.tau_energy(betas, les, us)
        except Exception as ex:
            if "explicit random numbers are accepted" in ob or "explicit u gives" in ob:
                return {"reproduced": True, "key": "tau_energy: explicit u with an out-of-table angle in the batch raises",
                        "detail": f"Taus.tau_energy(betas={betas.tolist()}, log_e_nu={les.tolist()}, u={us.tolist()}) raised {type(ex).__name__}: {ex}"}
            return {"reproduced": False, "key": None, "detail": f"raised {ex}"}
        if not all(np.array_equal(a, b) for a, b in zip(keep, (betas, les, us))):
            return {"reproduced": True, "key": "tau_energy modifies its input arrays", "detail": f"inputs {[k.tolist() for k in keep]} became {[betas.tolist(), les.tolist(), us.tolist()]}"}
        from nuspacesim.utils.cdf import grid_cdf_sampler

        s = grid_cdf_sampler(T.tau_cdf_grid)
        for i, c in enumerate(pat):
            if c == "H":
                ref = np.finfo(np.float32).eps * 10 ** les[i]
            else:
                ref = s(les[i:i + 1], np.array([bmin if c == "L" else keep[0][i]]), us[i:i + 1])[0] * 10 ** les[i]
            if abs(e[i] - ref) > 1e-9 * abs(ref):
                return {"reproduced": True, "key": "tau_energy: wrapper value differs from the single-event reference",
                        "detail": f"pattern {pat}, betas={keep[0].tolist()} (table range [{bmin}, {bmax}]): event {i} got {e[i]}, reference {ref}"}
        return {"reproduced": False, "key": None, "detail": "real code satisfies the predicate"}
    if job.startswith("Taus.tau_energy (two objects"):
        from nuspacesim.config import NssConfig
        from nuspacesim.simulation.taus.taus import Taus
        from nuspacesim.utils.cdf import grid_cdf_sampler

        rng = np.random.default_rng(3)
        n = 400
        betas, les, us = rng.uniform(0.01, 0.7, n), rng.uniform(6.1, 11.9, n), rng.uniform(0.05, 0.95, n)
        objs = []
        for ver in ("3", "1", "3"):
            cfg = NssConfig()
            cfg.simulation.tau_shower.table_version = ver
            objs.append((ver, Taus(cfg)))
        for ver, T in objs:
            got = T.tau_energy(betas.copy(), les.copy(), us.copy())
            own = Taus(type(T.config)(**{"simulation": {"tau_shower": {"table_version": ver}}})) if False else T
            ref = grid_cdf_sampler(T.tau_cdf_grid)(les, betas, us) * 10**les
            nbad = int(np.sum(np.abs(got - ref) > 1e-9 * np.abs(ref)))
            if nbad:
                return {"reproduced": True, "key": "tau_energy: state shared between Taus objects (a later object samples another object's table)",
                        "detail": f"objects created for table versions 3, 1, 3 and used in that order: version {ver} disagrees with its own table for {nbad} of {n} events"}
        return {"reproduced": False, "key": None, "detail": "each real object samples its own table"}
    if job.startswith("grid_cdf_sampler(M="):
        M = int(job.split("M=")[1].split(",")[0])
        n = int(job.split("events=")[1].rstrip(")"))
        try:
            z, row, F, us = _real_sampler(m, M, n)
        except Exception as ex:
            return {"reproduced": True, "key": f"grid_cdf_sampler: {type(ex).__name__}", "detail": f"raised {type(ex).__name__}: {ex} at {m}"}
        for i in range(n):
            Fz = np.interp(z[i], F, row)
            if "F(z" in ob and abs(Fz - us[i]) > 1e-9:
                return {"reproduced": True, "key": "grid_cdf_sampler: F(z) != u", "detail": f"F(z)={Fz} u={us[i]} z={z[i]} row={row.tolist()} frac={F.tolist()}"}
            if "inside the tabulated" in ob and not (F[0] - 1e-12 <= z[i] <= F[-1] + 1e-12):
                return {"reproduced": True, "key": "grid_cdf_sampler: z outside the fraction range", "detail": f"z={z[i]} frac range [{F[0]},{F[-1]}]"}
        if n == 2 and "increasing" in ob or "decreasing" in ob:
            if us[0] <= us[1] and z[0] > z[1] + 1e-12:
                return {"reproduced": True, "key": "grid_cdf_sampler: not monotone in u", "detail": f"u={us} z={z.tolist()}"}
        return {"reproduced": False, "key": None, "detail": "real code satisfies the predicate at the model point"}
    if "rejected" in ob:
        return _replay_reject(ob)
    return {"reproduced": False, "key": None, "detail": "no numeric replay"}


def _replay_reject(ob):
    import numpy as np

    from nuspacesim.utils.cdf import grid_cdf_sampler

    T = _real_taus()
    s = grid_cdf_sampler(T.tau_cdf_grid)
    le = 5.5 if "below" in ob else 12.5
    try:
        r = s(np.array([le]), np.array([0.3]), np.array([0.5]))
    except ValueError:
        return {"reproduced": False, "key": None, "detail": "real code raises ValueError"}
    return {"reproduced": True, "key": "grid_cdf_sampler: out-of-table energy is not rejected", "detail": f"log_e_nu={le} returned {r} instead of raising"}


def _real_sampler(m, M, n):
    import numpy as np

    from nuspacesim.utils.cdf import grid_cdf_sampler
    from nuspacesim.utils.grid import NssGrid

    g = lambda k, d: m.get(k, d) if m.get(k) is not None else d  # noqa
    E = np.array([g("E0", 6.0), g("E1", 7.0)])
    B = np.array([g("B0", 0.1), g("B1", 0.2)])
    F = np.array([g(f"frac{k}", (k + 1) / M) for k in range(M)])
    data = np.array([[[g(f"cdf{i}{j}_{k}", k / (M - 1)) for k in range(M)] for j in range(2)] for i in range(2)], dtype=float)
    grid = NssGrid(data, [E, B, F], ["log_e_nu", "beta_rad", "e_tau_frac"])
    le, be = g("logE", E[0]), g("beta", B[0])
    us = np.array([g(f"u{i}", 0.5) for i in range(n)])
    z = grid_cdf_sampler(grid)(np.full(n, le), np.full(n, be), us)
    from scipy.interpolate import interpn

    row = interpn((E, B), data, (np.array([le]), np.array([be])))[0]
    return z, row, F, us


def validate(seed, tier):
    import numpy as np

    M, n = 3, 2

    def sampler(rng):
        v = {"E0": 6.0, "E1": 6.25, "B0": 0.1, "B1": 0.15}
        fr = np.sort(rng.uniform(0.01, 1, M))
        for k in range(M):
            v[f"frac{k}"] = float(fr[k])
        for i in range(2):
            for j in range(2):
                row = np.sort(rng.uniform(0, 1, M))
                row[0], row[-1] = 0.0, 1.0
                for k in range(M):
                    v[f"cdf{i}{j}_{k}"] = float(row[k])
        v["logE"] = float(rng.uniform(6.0, 6.25))
        v["beta"] = float(rng.uniform(0.1, 0.15))
        for i in range(n):
            v[f"u{i}"] = float(rng.uniform(0.01, 0.99))
        return v

    def real(v):
        z, row, F, us = _real_sampler(v, M, n)
        return {"z": z}

    return harness.validate(sampler_run(M, n), sampler, real, 50, seed, rel=1e-8)


MANIFEST_ENTRY = {
    "level_text": "Bounded symbolic execution of the real grid_cdf_sampler.sample, vec_1d_interp and Taus.tau_energy: a 2x2 table cell with symbolic axes and four arbitrary non-decreasing corner CDF rows (M=3 quick / 4 thorough nodes), symbolic query point and random numbers. nlsat proves F(z)=u for the bilinearly interpolated piecewise-linear F (reference blend written independently of the interpolator stub), z inside the fraction range, monotonicity in u, rejection of out-of-table energies, the below/above-range clamps of the wrapper and that explicit random numbers give, event by event, what the internal generator gives, for every below/inside/above pattern of N=2 (quick) / 3 (thorough) events. All rows of the three shipped CDF tables are checked by per-row z3 queries with a symbolic column index.",
    "level_note": "A wiring job runs the real Taus.__init__ with a recording NssGrid.read for table versions 1-3 (both tables must be the configured version's files; replayed against the shipped files). REAL arithmetic; scipy interpn and np.nditer are stubs (reference multilinear interpolation; one chunk); one table cell; M bounded; IEEE rounding and the 8192-element nditer buffer boundary are outside the claim.",
    "technique": "symbolic execution of the real NumPy source (DFS over brackets and clamp patterns) + z3 qfnra-nlsat; per-row z3 table queries",
}
