"""C15 -- configuration survives the round trip and units are honoured (partial: the TOML
text layer and astropy's unit-string grammar are not encoded)."""
from __future__ import annotations

from fractions import Fraction as Fr

import astropy.units as u
import z3

from symnp import core, harness, load, units
from symnp.core import SV

ID = "C15"
META = {
    "bounds": {
        "quick": "every dimensional field of every model class (discovered through __pydantic_decorators__): value x symbolic over all reals (round trip, bare number) ; 4-6 alternative units per dimension with symbolic values; non-equivalent units; frequency band with symbolic edges; month as a symbolic integer, and exhaustively all 12 x {number, zero-padded number, full name, abbreviation} spellings plus invalid strings; spectrum / cloud discriminators for every variant",
        "thorough": "same + second solver",
    },
    "outside_bounds": ["the TOML text layer (tomli_w / tomllib: regex-based; CrossHair inconclusive) -- strings with quotes, backslashes, non-ASCII are NOT covered", "pydantic-core's own dispatch and type coercion", "astropy's unit-string grammar ('all spellings'): units are given as astropy Unit objects / parsed by the real astropy",
                       "underflow / overflow (RELERR model is for normal-range doubles)"],
    "stubs": ["astropy.units.Quantity -> symbolic quantity; conversion factors and equivalence from the real astropy at run time; RELERR mode: every conversion multiply carries a rounding error (1+d), |d| <= 2^-53; str()/parse an exact inverse pair"],
    "assumptions": ["standard model of floating-point arithmetic for the two conversion multiplies of the rad<->deg text round trip", "validators / serializers are executed as the plain functions pydantic registers (model.__pydantic_decorators__)"],
}
LEDGER = {"quick": 225, "thorough": 225}

CANON = {"valid_distkm": u.km, "valid_anglerad": u.rad, "valid_aream2": u.m**2, "valid_freqMHz": u.MHz, "valid_powerdB": u.dB}
ALT_UNITS = {
    "valid_distkm": [u.m, u.cm, u.mm, u.imperial.mi, u.au, u.lyr],
    "valid_anglerad": [u.deg, u.arcmin, u.arcsec, u.mrad, u.hourangle],
    "valid_aream2": [u.cm**2, u.km**2, u.mm**2, u.imperial.ft**2],
    "valid_freqMHz": [u.Hz, u.kHz, u.GHz, u.THz],
    "valid_powerdB": [],
}
BAD_UNITS = {"valid_distkm": u.s, "valid_anglerad": u.km, "valid_aream2": u.m, "valid_freqMHz": u.km, "valid_powerdB": u.km}


def _ns():
    return load.load("nuspacesim.config", {"Quantity": units.Quantity}, np=None)


def _models(ns):
    out, seen = [], set()

    def walk(cls):
        if id(cls) in seen:
            return
        seen.add(id(cls))
        out.append(cls)
        for v in vars(cls).values():
            if isinstance(v, type) and hasattr(v, "__pydantic_decorators__"):
                walk(v)

    for n in ("Detector", "Simulation", "NssConfig"):
        walk(ns[n])
    return out


def fields_run():
    def run(C):
        ns = _ns()
        units.Quantity.relerr = True
        units.Quantity.ndelta[0] = 0
        claims = {}
        x = z3.Real("x")
        n_fields = 0
        try:
            for cls in _models(ns):
                d = cls.__pydantic_decorators__
                ser_of = {}
                for s in d.field_serializers.values():
                    for f in s.info.fields:
                        ser_of[f] = s
                for vname, vd in d.field_validators.items():
                    if vname not in CANON or vd.info.mode != "before":
                        continue
                    canon = CANON[vname]
                    for f in vd.info.fields:
                        n_fields += 1
                        tag = f"{cls.__qualname__}.{f}"
                        # bare number -> unchanged, in the canonical unit
                        r = vd.func(SV(t=x))
                        claims[f"{tag}: a bare number is stored unchanged ({canon})"] = SV.of(r).term() == x
                        # serialise -> text -> validate
                        if f in ser_of:
                            txt = ser_of[f].func(None, SV(t=x))
                            back = SV.of(vd.func(txt)).term()
                            if canon == u.rad:
                                tol = core.rv(Fr(7, 2) / 2**53)
                                ax = z3.If(x >= 0, x, -x)
                                claims[f"{tag}: serialize -> text -> validate within 3.5 * 2^-53 relative (rad -> deg text -> rad, rounded multiplies)"] = z3.And(back - x <= tol * ax, x - back <= tol * ax)
                                claims[f"{tag}: serialised in degrees"] = z3.BoolVal(txt.unit == u.deg)
                            else:
                                claims[f"{tag}: serialize -> text -> validate is exact ({canon})"] = back == x
                                claims[f"{tag}: serialised in the canonical unit"] = z3.BoolVal(txt.unit == canon)
                        # alternative units -> astropy's factor
                        for au in ALT_UNITS[vname]:
                            units.Quantity.relerr = False
                            r = vd.func(units.Quantity(SV(t=x), au))
                            units.Quantity.relerr = True
                            fac = core.rv(core.lit_fr(float(au.to(canon))))
                            claims[f"{tag}: a value in {au} is converted with astropy's factor to {canon}"] = SV.of(r).term() == x * fac
                        # incompatible unit -> rejected
                        try:
                            vd.func(units.Quantity(SV(t=x), BAD_UNITS[vname]))
                            rej = False
                        except u.UnitConversionError:
                            rej = True
                        claims[f"{tag}: an incompatible unit ({BAD_UNITS[vname]}) is rejected"] = z3.BoolVal(rej)
        finally:
            units.Quantity.relerr = False
        claims["all 15 dimensional fields found"] = z3.BoolVal(n_fields == 15)
        return harness.Out(claims=claims, inputs={"x": x}, info={"fields": n_fields})

    return run


def band_run():
    def run(C):
        ns = _ns()
        Radio = ns["Detector"].Radio
        lo, hi = z3.Real("low_frequency"), z3.Real("high_frequency")
        obj = type("R", (), {"low_frequency": SV(t=lo), "high_frequency": SV(t=hi)})()
        # the band check, wherever pydantic has it registered: a model-level "after" validator (the pinned tree), or a
        # field-level "after" validator of one edge that reads the other from info.data (not looked up by name)
        dec = Radio.__pydantic_decorators__
        mvs = [d.func for d in dec.model_validators.values() if d.info.mode == "after"]
        fvs = [(d.func, d.info.fields) for d in dec.field_validators.values() if d.info.mode == "after" and set(d.info.fields) & {"low_frequency", "high_frequency"}]
        if not mvs and not fvs:
            raise core.HarnessError("no band validator registered on Detector.Radio")
        r, raised = obj, False
        try:
            for f in mvs:
                r = f(obj)
            for f, fields in fvs:
                for fld in fields:
                    other = "low_frequency" if fld == "high_frequency" else "high_frequency"
                    info = type("Info", (), {"data": {other: getattr(obj, other)}, "field_name": fld})()
                    getattr(Radio, f.__name__)(getattr(obj, fld), info)
                r = obj
        except ValueError:
            r, raised = None, True
        claims = {"frequency band accepted exactly when high > low (an inverted or empty band is rejected)": z3.BoolVal(raised) == (hi <= lo),
                  "an accepted band is returned unchanged": z3.BoolVal(raised or r is obj)}
        return harness.Out(claims=claims, inputs={"low_frequency": lo, "high_frequency": hi})

    return run


class SymInt(int):
    """int whose value is symbolic: comparisons return symbolic Booleans (so `if m < 1 or m > 12` forks)."""

    def __new__(cls, sv):
        o = int.__new__(cls, 0)
        o.sv = sv
        return o

    def __lt__(self, o):
        return self.sv < o

    def __gt__(self, o):
        return self.sv > o

    def __le__(self, o):
        return self.sv <= o

    def __ge__(self, o):
        return self.sv >= o

    def __eq__(self, o):
        return self.sv == o

    def __hash__(self):
        return id(self)

    def __format__(self, spec):
        return f"<month {self.sv.t}>"

    __str__ = __repr__ = lambda self: f"<month {self.sv.t}>"


def month_int_run():
    def run(C):
        ns = _ns()
        PM = ns["Simulation"].PressureMapCloud
        f = PM.__pydantic_decorators__.field_validators["valid_month"].func
        m = z3.Real("month")
        si = SymInt(SV(t=m, isint=True))
        try:
            r = f(si)
            raised = False
        except ValueError:
            r, raised = None, True
        claims = {"integer month rejected exactly when outside 1..12": z3.BoolVal(raised) == z3.Or(m < 1, m > 12),
                  "an accepted integer month is returned unchanged": z3.BoolVal(raised or r is si)}
        return harness.Out(claims=claims, inputs={"month": m})

    return run


def month_names_run():
    def run(C):
        import calendar

        ns = _ns()
        PM = ns["Simulation"].PressureMapCloud
        f = PM.__pydantic_decorators__.field_validators["valid_month"].func
        claims = {}
        for k in range(1, 13):
            for sp in (str(k), f"{k:02d}", calendar.month_name[k], calendar.month_abbr[k], calendar.month_name[k].lower(), calendar.month_abbr[k].upper()):
                try:
                    got = f(sp)
                except ValueError:
                    got = None
                claims[f"month spelling {sp!r} -> {k}"] = z3.BoolVal(got == k)
        import datetime

        claims["datetime -> its month"] = z3.BoolVal(f(datetime.datetime(2020, 7, 4)) == 7)
        for bad in ("0", "13", "Janu", "Smarch", "", "1.5", "month"):
            try:
                f(bad)
                rej = False
            except ValueError:
                rej = True
            claims[f"unparseable month {bad!r} is rejected"] = z3.BoolVal(rej)
        return harness.Out(claims=claims)

    return run


def variants_run():
    def run(C):
        import warnings

        ns = _ns()
        Sim, Nss = ns["Simulation"], ns["NssConfig"]
        claims = {}
        for sp, kw in ((Sim.MonoSpectrum, {"log_nu_energy": 9.25}), (Sim.PowerSpectrum, {"index": 2.5, "lower_bound": 7.0, "upper_bound": 10.5})):
            for cl, ckw in ((Sim.NoCloud, {}), (Sim.MonoCloud, {"altitude": 3.5}), (Sim.PressureMapCloud, {"month": 9})):
                cfg = Nss(simulation=Sim(spectrum=sp(**kw), cloud_model=cl(**ckw)))
                with warnings.catch_warnings():
                    warnings.simplefilter("ignore")
                    d = cfg.model_dump()
                back = Nss(**d)
                tag = f"{sp.__name__} x {cl.__name__}"
                claims[f"{tag}: dump keeps the id discriminators"] = z3.BoolVal(d["simulation"]["spectrum"]["id"] == sp().id and d["simulation"]["cloud_model"]["id"] == cl().id)
                claims[f"{tag}: dump -> NssConfig rebuilds the same variants and parameters"] = z3.BoolVal(
                    type(back.simulation.spectrum) is sp and type(back.simulation.cloud_model) is cl
                    and all(getattr(back.simulation.spectrum, k) == v for k, v in kw.items()) and all(getattr(back.simulation.cloud_model, k) == v for k, v in ckw.items()))
        return harness.Out(claims=claims)

    return run


def job_fields(tier):
    return harness.run_job("dimensional fields", fields_run(), timeout_ms=60000, second=(tier == "thorough"))


def job_band(tier):
    return harness.run_job("radio frequency band", band_run(), timeout_ms=20000)


def job_month_int(tier):
    return harness.run_job("month (symbolic integer)", month_int_run(), timeout_ms=20000)


def job_month_names(tier):
    return harness.run_job("month (all spellings)", month_names_run(), timeout_ms=20000)


def job_variants(tier):
    return harness.run_job("spectrum / cloud variants", variants_run(), timeout_ms=20000)


def jobs(tier, seed):
    return [("fields", "job_fields", {"tier": tier}), ("band", "job_band", {"tier": tier}), ("mi", "job_month_int", {"tier": tier}),
            ("mn", "job_month_names", {"tier": tier}), ("var", "job_variants", {"tier": tier})]


DIM_FIELDS = [  # (model path, field, canonical unit, an alternative unit): the 15 dimensional fields of the property
    ("Detector.InitialPos", "altitude", "km", "m"), ("Detector.InitialPos", "latitude", "rad", "deg"), ("Detector.InitialPos", "longitude", "rad", "deg"),
    ("Detector.SunMoon", "sun_alt_cut", "rad", "deg"), ("Detector.SunMoon", "moon_alt_cut", "rad", "arcmin"), ("Detector.SunMoon", "moon_min_phase_angle_cut", "rad", "deg"),
    ("Detector.Optical", "telescope_effective_area", "m2", "cm2"), ("Detector.Radio", "low_frequency", "MHz", "kHz"), ("Detector.Radio", "high_frequency", "MHz", "GHz"),
    ("Detector.Radio", "gain", "dB", None), ("Simulation", "max_cherenkov_angle", "rad", "deg"), ("Simulation", "max_azimuth_angle", "rad", "deg"),
    ("Simulation", "angle_from_limb", "rad", "deg"), ("Simulation.TargetOfOpportunity", "source_RA", "rad", "hourangle"), ("Simulation.TargetOfOpportunity", "source_DEC", "rad", "deg"),
]
VALIDATE_JOB = "public API (dispatch of the validators and the TOML layer)"


def _leaves(obj, path="config"):
    from pydantic import BaseModel

    if isinstance(obj, BaseModel):
        for k in type(obj).model_fields:
            yield from _leaves(getattr(obj, k), f"{path}.{k}")
    else:
        yield path, obj


def _api_probe(seed=0):
    """What the symbolic jobs ASSUME about the layers they do not execute (pydantic-core's dispatch of the
    validators to the 15 fields; tomli_w / tomllib and create_toml / config_from_toml handing the dumped
    dictionary through unchanged), exercised on the real public API with every leaf non-default.
    -> (number of probes, list of (obligation, detail))"""
    import os
    import tempfile
    import warnings

    import numpy as np
    from astropy import units as au
    from astropy.units import Quantity

    from nuspacesim import config as cfgmod

    U = {"km": au.km, "m": au.m, "rad": au.rad, "deg": au.deg, "arcmin": au.arcmin, "hourangle": au.hourangle, "m2": au.m**2, "cm2": au.cm**2, "MHz": au.MHz, "kHz": au.kHz, "GHz": au.GHz, "dB": au.dB}
    rng = np.random.default_rng(seed)
    bad, n = [], 0
    warnings.simplefilter("ignore")
    for mpath, field, canon, alt in DIM_FIELDS:
        cls = cfgmod
        for part in mpath.split("."):
            cls = getattr(cls, part)
        vals = [0.3, 3.5, 4.75, 0.01, 6.2] + [float(rng.uniform(0.05, 6.2)) for _ in range(3)]
        for x in vals:
            kw = {}
            if field == "low_frequency":
                kw = {"high_frequency": 1e9}
            if field == "high_frequency":
                kw = {"low_frequency": 1e-9}
            for spelling, given, want in (("bare number", x, x), ("Quantity in the canonical unit", Quantity(x, U[canon]), x),
                                          ("text in the canonical unit", str(Quantity(x, U[canon])), x)) + (
                    (("Quantity in " + alt, Quantity(x, U[alt]), Quantity(x, U[alt]).to(U[canon]).value),
                     ("text in " + alt, f"{x!r} {U[alt].to_string()}", Quantity(x, U[alt]).to(U[canon]).value)) if alt else ()):
                n += 1
                try:
                    got = getattr(cls(**{field: given}, **kw), field)
                except Exception as ex:  # noqa
                    bad.append((f"{mpath}.{field}: {spelling} is stored with astropy's conversion to {canon}", f"{given!r} rejected: {type(ex).__name__}"))
                    continue
                if not (abs(got - want) <= 4 * np.finfo(float).eps * abs(want)):
                    bad.append((f"{mpath}.{field}: {spelling} is stored with astropy's conversion to {canon}", f"{given!r} stored as {got!r}, astropy gives {want!r} {canon}"))
    # frequency band: accepted exactly when the resulting band (explicit edges, or the default for an omitted one) is not inverted
    R0 = cfgmod.Detector.Radio()
    dlo, dhi = R0.low_frequency, R0.high_frequency
    for kw in ({"low_frequency": 50.0, "high_frequency": 40.0}, {"low_frequency": 40.0, "high_frequency": 50.0}, {"low_frequency": dhi + 200.0}, {"low_frequency": f"{float(dhi + 100.0) / 1000.0!r} GHz"},
               {"low_frequency": dhi - 1.0}, {"high_frequency": dlo - 5.0}, {"high_frequency": dlo + 5.0}, {"high_frequency": Quantity((dlo - 10.0) * 1e6, au.Hz)},
               {"low_frequency": 100.0, "high_frequency": 100.0}):
        n += 1
        lo = float(Quantity(kw["low_frequency"]).to(au.MHz).value) if isinstance(kw.get("low_frequency"), str) else (kw["low_frequency"].to(au.MHz).value if isinstance(kw.get("low_frequency"), Quantity) else kw.get("low_frequency", dlo))
        hi = kw["high_frequency"].to(au.MHz).value if isinstance(kw.get("high_frequency"), Quantity) else kw.get("high_frequency", dhi)
        try:
            cfgmod.Detector.Radio(**kw)
            acc = True
        except Exception:  # noqa
            acc = False
        if acc != (hi > lo):
            bad.append(("radio frequency band: accepted exactly when high > low (edges as given, defaults for omitted ones)", f"Detector.Radio({kw}) -> band [{lo}, {hi}] MHz: accepted = {acc}"))
    # TOML round trip, every leaf non-default, all six variants
    Sim, Det = cfgmod.Simulation, cfgmod.Detector
    k = 0
    for sp in (lambda: Sim.MonoSpectrum(log_nu_energy=9.25), lambda: Sim.PowerSpectrum(index=2.5, lower_bound=7.25, upper_bound=10.5)):
        for cl in (lambda: Sim.NoCloud(), lambda: Sim.MonoCloud(altitude=3.5), lambda: Sim.PressureMapCloud(month=9)):
            for mode in ("Diffuse", "Target"):
                k += 1
                r = lambda a, b: float(rng.uniform(a, b))  # noqa
                cfg = cfgmod.NssConfig(
                    title=f"run {k} \"quoted\" back\\slash \u00e9\u03bd", 
                    detector=Det(name=f"det-{k} '\u00fc'", initial_position=Det.InitialPos(altitude=r(1, 900), latitude=r(-1.5, 1.5), longitude=r(-3, 3)),
                                 sun_moon=Det.SunMoon(sun_moon_cuts=bool(k % 2), sun_alt_cut=r(-0.5, 0), moon_alt_cut=r(-0.2, 0.1), moon_min_phase_angle_cut=r(1, 3)),
                                 optical=Det.Optical(enable=bool(k % 3), telescope_effective_area=r(0.5, 9), quantum_efficiency=r(0.1, 0.9), photo_electron_threshold=r(2, 50)),
                                 radio=Det.Radio(enable=bool((k + 1) % 3), low_frequency=r(20, 90), high_frequency=r(100, 900), snr_threshold=r(2, 9), nantennas=int(rng.integers(2, 30)), gain=r(1, 5))),
                    simulation=Sim(mode=mode, thrown_events=int(rng.integers(2, 10**6)), max_cherenkov_angle=r(0.01, 0.2), max_azimuth_angle=r(0.1, 6), angle_from_limb=r(0.01, 0.3),
                                   cherenkov_light_engine="Default", ionosphere=Sim.Ionosphere(enable=bool(k % 2), total_electron_content=r(1, 50), total_electron_error=r(0.01, 0.5)),
                                   tau_shower=Sim.NuPyPropShower(etau_frac=r(0.1, 0.9), table_version="3"), target=Sim.TargetOfOpportunity(source_RA=r(0.1, 6), source_DEC=r(-1.5, 1.5), source_date="2023-01-0%dT00:00:00" % (1 + k % 9), source_date_format="isot", source_obst=r(100, 1e5)),
                                   spectrum=sp(), cloud_model=cl()))
                n += 1
                with tempfile.TemporaryDirectory() as d:
                    pth = os.path.join(d, "c.toml")
                    try:
                        cfgmod.create_toml(pth, cfg)
                        back = cfgmod.config_from_toml(pth)
                    except Exception as ex:  # noqa
                        bad.append(("TOML round trip: create_toml -> config_from_toml returns the configuration written", f"configuration {k}: {type(ex).__name__}: {ex}"))
                        continue
                a, b = dict(_leaves(cfg)), dict(_leaves(back))
                for key in a:
                    x, y = a[key], b.get(key, "<missing>")
                    same = (abs(x - y) <= 8 * np.finfo(float).eps * abs(x)) if isinstance(x, float) and isinstance(y, float) else (x == y and type(x) is type(y))
                    if not same:
                        bad.append(("TOML round trip: create_toml -> config_from_toml returns the configuration written", f"configuration {k} ({mode}): {key} written {x!r}, read back {y!r}"))
                        break
    return n, bad


def validate(seed, tier):
    n, bad = _api_probe(seed)
    return n, [{"obligation": ob, "verdict": "sat", "kind": "claim", "time_s": 0.0, "model": {"seed": seed}, "detail": det,
                "reason": "assumption of the symbolic jobs about a layer they do not execute is false on the real public API (concrete probe)"} for ob, det in bad]


def replay(v):
    """Through the public API: NssConfig validation, model_dump, create_toml / config_from_toml."""
    import os
    import tempfile
    import warnings

    from astropy.units import Quantity

    from nuspacesim.config import Detector, NssConfig, Simulation, config_from_toml, create_toml

    job, ob = v.get("job", ""), v["obligation"]
    m = {k: x for k, x in (v.get("model") or {}).items() if x is not None}
    if job == VALIDATE_JOB or "dimensional fields found" in ob:
        _n, bad = _api_probe(int(m.get("seed", 0)))
        if "dimensional fields found" in ob:  # a field lost its canonical validator: which values does the public API now mis-store?
            if bad:
                return {"reproduced": True, "key": bad[0][0], "detail": bad[0][1]}
            return {"reproduced": False, "key": None, "detail": "public API stores all probe values correctly"}
        for o, det in bad:
            if o == ob:
                return {"reproduced": True, "key": o, "detail": det}
        return {"reproduced": False, "key": None, "detail": "probe passes"}
    if job == "radio frequency band":
        lo, hi = m.get("low_frequency", 100.0), m.get("high_frequency", 50.0)
        try:
            Detector.Radio(low_frequency=lo, high_frequency=hi)
            acc = True
        except Exception:
            acc = False
        if acc != (hi > lo):
            return {"reproduced": True, "key": "frequency band validation", "detail": f"low={lo} high={hi}: accepted={acc}"}
    if job == "month (symbolic integer)":
        k = int(round(m.get("month", 13)))
        try:
            Simulation.PressureMapCloud(month=k)
            acc = True
        except Exception:
            acc = False
        if acc != (1 <= k <= 12):
            return {"reproduced": True, "key": "integer month validation", "detail": f"month={k}: accepted={acc}"}
    if job == "dimensional fields":
        x = m.get("x", 0.3)
        field = ob.split("/", 1)[-1].split(":")[0].strip()
        cfg = NssConfig()
        cfg.detector.initial_position.latitude = x
        cfg.detector.initial_position.altitude = abs(x) + 1
        cfg.simulation.max_cherenkov_angle = x
        with tempfile.TemporaryDirectory() as d, warnings.catch_warnings():
            warnings.simplefilter("ignore")
            p = os.path.join(d, "c.toml")
            create_toml(p, cfg)
            back = config_from_toml(p)
        for a, b in ((cfg.detector.initial_position.latitude, back.detector.initial_position.latitude), (cfg.detector.initial_position.altitude, back.detector.initial_position.altitude),
                     (cfg.simulation.max_cherenkov_angle, back.simulation.max_cherenkov_angle)):
            if abs(a - b) > 4.5e-16 * abs(a):
                return {"reproduced": True, "key": "configuration round trip changes a dimensional field", "detail": f"{a!r} -> {b!r}"}
        if "incompatible" in ob:
            # the public API with a quantity whose unit astropy itself cannot convert to the field's canonical unit (no
            # equivalencies): construction must fail, for a value that would otherwise be perfectly valid
            probes = [(Detector.InitialPos, "altitude", Quantity(3.0, "s")), (Detector.InitialPos, "latitude", Quantity(0.2, "km")), (Detector.InitialPos, "longitude", Quantity(0.2, "km")),
                      (Detector.Optical, "telescope_effective_area", Quantity(2.0, "m")), (Detector.Radio, "low_frequency", Quantity(2.0, "km")),
                      (Detector.Radio, "low_frequency", Quantity(20.0, "m")), (Detector.Radio, "high_frequency", Quantity(0.5, "m")), (Detector.Radio, "gain", Quantity(1.0, "km"))]
            for cls_, fld, q in probes:
                if field and fld not in field and field.split(".")[-1] != fld:
                    continue
                try:
                    got = getattr(cls_(**{fld: q}), fld)
                except Exception:
                    continue
                return {"reproduced": True, "key": f"{cls_.__qualname__}.{fld}: a quantity with an incompatible unit is accepted",
                        "detail": f"{cls_.__qualname__}({fld}={q!s}) was accepted and stored as {got!r}; astropy cannot convert {q.unit} to the field's canonical unit"}
        if "converted with astropy" in ob or "bare number" in ob or "incompatible" in ob:
            try:
                a = Detector.InitialPos(altitude=Quantity(5000.0, "m")).altitude
                if abs(a - 5.0) > 1e-12:
                    return {"reproduced": True, "key": "unit conversion of a dimensional field", "detail": f"5000 m -> {a} km"}
                if Detector.InitialPos(altitude=7.5).altitude != 7.5:
                    return {"reproduced": True, "key": "bare number not stored unchanged", "detail": "altitude 7.5"}
            except Exception as ex:
                return {"reproduced": True, "key": "dimensional field validation raises", "detail": str(ex)}
    return {"reproduced": False, "key": None, "detail": "public API satisfies the predicate at the model point"}


MANIFEST_ENTRY = {
    "level_text": "Partial claim. Every before-validator and serializer pydantic registers for the 15 dimensional fields, parse_units, the frequency-band model validator and the month validator are executed as plain functions with symbolic values: z3 proves that a bare number is stored unchanged, that serialize -> text -> validate is exact for km, m^2, MHz, dB and within 3.5 * 2^-53 relative for the rad -> deg -> rad text conversion (standard model of floating point, astropy's own double factors), that values in alternative units are multiplied by astropy's factor, that incompatible units are rejected, that a band is accepted iff high > low (symbolic edges) and an integer month iff 1 <= m <= 12 (symbolic integer); all 12 x 6 month spellings, datetime months, invalid strings and the six spectrum x cloud variants (id discriminators, dump -> rebuild) are enumerated exhaustively.",
    "level_note": "The layers that cannot be executed symbolically (pydantic-core's dispatch of the validators to the 15 fields, tomli_w/tomllib, astropy's unit-string grammar) are not part of the solver claim; the assumptions the encoding makes about them are probed on the real public API at every run (596 constructions in 3-5 spellings per field; 12 all-non-default configurations, all six variants, strings with quotes / backslashes / non-ASCII, through create_toml -> config_from_toml, leaf by leaf) -- sampling, reported as traces_validated_against_impl. Quantity is a stub whose unit algebra is the real astropy's; printing and re-parsing a double is assumed exact.",
    "technique": "symbolic execution of the real validator/serializer functions + z3 (nlsat; relative-error model of the conversion multiplies); exhaustive enumeration of the finite spelling sets",
}
