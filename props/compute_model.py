"""Symbolic execution of the REAL nuspacesim.compute() body.

compute.py is exec'ed from /repo with `np` rebound to the shim; the stage classes are the
real classes (loaded through the shim as well) with their numeric kernels replaced by
stubs that return fresh symbolic columns -- so the real decorators, the real accessor
methods (mask gathers), the real StagedWriter and the real control flow of compute()
run unchanged.  Used by C03 (wiring), C14 (structure / isolation) and C17 (staged output).
"""
from __future__ import annotations

import copy
from collections import OrderedDict
from fractions import Fraction as Fr

import numpy as _np
import z3

from symnp import core, load
from symnp.arr import SymArray, symarr
from symnp.core import SV, ctx
from symnp.shim import NP


class StageFailure(Exception):
    """Injected failure of a stage (C17)."""


class _Meta(OrderedDict):
    def __init__(self, d, log):
        super().__init__(d)
        self._log = log

    def __setitem__(self, k, v):
        super().__setitem__(k, v)
        if getattr(self, "_log", None) is not None:
            self._log.append(("meta", k))


class RecTable:
    """Recording stand-in for astropy.table.Table (columns, meta, write snapshots)."""

    def __init__(self, meta=None, fs=None, log=None):
        self.cols = OrderedDict()
        self.fs = fs if fs is not None else {}
        self.log = log if log is not None else []
        self.meta = _Meta(meta or {}, self.log)

    def add_columns(self, cols, indexes=None, names=None, copy=True, rename_duplicate=False):
        cols = list(cols)
        names = list(names)
        if len(cols) != len(names):
            raise ValueError("Number of names must match number of cols")
        for n, c in zip(names, cols):
            if n in self.cols:
                raise ValueError(f"Duplicate column names: {n}")
            c = SymArray(c) if not isinstance(c, SymArray) else c
            if c.ndim == 0:
                raise ValueError("Elements in list initialization must be either Column or list-like")
            if self.cols and len(c) != len(self):
                raise ValueError("Inconsistent data column lengths")
            self.cols[n] = c.copy()  # astropy copies column data
        self.log.append(("add", tuple(names)))

    def __len__(self):
        for c in self.cols.values():
            return len(c)
        return 0

    @property
    def colnames(self):
        return list(self.cols)

    def __getitem__(self, k):
        return self.cols[k]

    def snapshot(self):
        return {"cols": OrderedDict((k, v.copy()) for k, v in self.cols.items()), "meta": OrderedDict(self.meta.items())}

    def write(self, path, format=None, overwrite=False):
        if path is None:
            raise TypeError("write() needs an output path")
        if path in self.fs and not overwrite:
            raise OSError(f"File {path} already exists.")
        snap = self.snapshot()
        self.fs[path] = snap
        self.log.append(("write", path, format, snap))


class Recorder:
    def __init__(self):
        self.vals = {}
        self.mcintegral_calls = []
        self.stage_calls = []
        self.fs = {}
        self.log = []
        self.table = None
        self.exception = None
        self.result = None
        self.cfg = None
        self.draws_by_stage = []
        self.eas_args = None
        self.failed_at = None


def make_config(mode="Diffuse", spectrum="mono", cloud="none", optical=True, radio=True, thrown=2, symbolic=True):
    from nuspacesim.config import NssConfig, Simulation

    cfg = NssConfig()
    cfg = cfg.model_copy(deep=True)
    s, d = cfg.simulation, cfg.detector
    s.mode = mode
    s.thrown_events = thrown
    if spectrum == "mono":
        s.spectrum = Simulation.MonoSpectrum.model_construct(log_nu_energy=SV(t=z3.Real("cfg_log_nu_energy")) if symbolic else 8.0)
    else:
        s.spectrum = Simulation.PowerSpectrum.model_construct(index=SV(c=Fr(2)), lower_bound=SV(t=z3.Real("cfg_lower")), upper_bound=SV(t=z3.Real("cfg_upper")))
    if cloud == "none":
        s.cloud_model = Simulation.NoCloud()
    elif cloud == "mono":
        s.cloud_model = Simulation.MonoCloud.model_construct(altitude=SV(t=z3.Real("cfg_cloud_alt")))
    else:
        s.cloud_model = Simulation.PressureMapCloud(month=3)
    d.optical.enable = optical
    d.radio.enable = radio
    if symbolic:
        d.optical.photo_electron_threshold = SV(t=z3.Real("cfg_pe_thr"))
        d.optical.telescope_effective_area = SV(t=z3.Real("cfg_area"))
        d.optical.quantum_efficiency = SV(t=z3.Real("cfg_qe"))
        d.radio.snr_threshold = SV(t=z3.Real("cfg_snr_thr"))
        s.max_cherenkov_angle = core.free_angle("cfg_max_cher")
        d.initial_position.altitude = SV(t=z3.Real("cfg_det_alt"))
        s.tau_shower.etau_frac = SV(t=z3.Real("cfg_etau_frac"))
        C = ctx()
        C.assume(z3.Real("cfg_pe_thr") > 0, z3.Real("cfg_area") > 0, z3.Real("cfg_qe") > 0, z3.Real("cfg_det_alt") > 0,
                 z3.Real("cfg_etau_frac") > 0, z3.Real("cfg_etau_frac") <= 1)
    return cfg


def run_compute(mode="Diffuse", optical=True, radio=True, survivors=None, thrown=2, spectrum="mono", cloud="none",
                write_stages=False, output_file="out.fits", fail_stage=None, keep=None, real_mcintegral=False, cfg=None, opaque=True,
                fail_symbolic=False):
    """Execute the real compute() once on the current path. `keep`: None -> symbolic
    survival mask (forks), or a list of bools. `fail_stage`: name of the stage stub that
    raises StageFailure.  Returns a Recorder."""
    C = ctx()
    C.opaque_math = opaque  # numeric primitives abstracted: structural claims hold for every interpretation
    C.simplify_stores = not opaque
    rec = Recorder()
    if survivors is not None and keep is None:
        keep = [True] * survivors + [False] * (thrown - survivors)
    cfg = cfg or make_config(mode, spectrum, cloud, optical, radio, thrown)
    rec.cfg = cfg

    def stage(name):
        i = len(rec.stage_calls)
        rec.stage_calls.append(name)
        rec.draws_by_stage.append((name, C.ndraw))
        if fail_stage == name:
            raise StageFailure(name)
        if fail_symbolic and C.decide(z3.Real("fail_at") == i):
            rec.failed_at = (i, name)
            raise StageFailure(name)

    def sym(prefix, idx):
        return symarr([f"{prefix}{i}" for i in idx])

    # ---- geometry ---------------------------------------------------------------------
    gns = load.load("nuspacesim.simulation.geometry.region_geometry")

    def _mask(n):
        if keep is None:
            return symarr([f"keep{i}" for i in range(n)], "B")
        return SymArray([SV(c=bool(k), kind="B") for k in keep[:n]], "bool")

    class Geom(gns["RegionGeom"]):
        def __init__(self, config):
            self.config = config
            self.earth_radius = SV(c=core.lit_fr(6378.1))
            self.mcnorm = SV(t=z3.Real("mcnorm"))

        def throw(self, n):
            stage("geom.throw")
            NP.random.rand(4, n)  # the real throw draws 4*n numbers from the global generator
            idx = range(n)
            for att in ("thetaTrSubV", "phiTrSubV", "losPathLen", "costhetaTrSubN", "costhetaNSubV", "costhetaTrSubV", "betaTrSubN",
                        "latS", "longS", "elevAngVSubN", "aziAngVSubN"):
                setattr(self, att, sym(att + "_", idx))
            self.betaTrSubN = SymArray([core.sv_degrees(core.free_angle(f"beta{i}")) for i in idx])
            self.event_mask = _mask(n)
            self.kept = [i for i in idx if bool(self.event_mask[i])]

        def find_lat_long_along_traj(self, s):
            stage("geom.find_lat_long")
            n = len(s)
            return sym("init_lat_", self.kept), sym("init_lon_", self.kept)

    class GeomToO(gns["RegionGeomToO"]):
        def __init__(self, config):
            self.config = config
            self.sun_moon_cut = config.detector.sun_moon.sun_moon_cuts
            self.detLat, self.detLong = SV(t=z3.Real("detLat")), SV(t=z3.Real("detLong"))

            class _Too:
                def sun_moon_cut(self_, times):
                    return SymArray([SV(t=z3.Bool("dark_" + str(SV.of(t).term())), kind="B") for t in SymArray(times).a.reshape(-1)], "bool")

            self.too_source = _Too()

        def throw(self, n):
            stage("geom.throw")
            idx = range(n)
            self.times = sym("time_", idx)
            self.horizon_mask = _mask(n)
            hk = [i for i in idx if bool(self.horizon_mask[i])]
            self.volume_mask = SymArray([SV(c=True, kind="B") for _ in hk], "bool")
            self.kept = hk
            self.sourceNadRad = sym("nadir_", idx)
            self.sourcebeta = SymArray([core.free_angle(f"beta{i}") for i in hk])
            self.losPathLen = sym("losPathLen_", hk)

        def find_lat_long_along_traj(self, s):
            stage("geom.find_lat_long")
            return super().find_lat_long_along_traj(s)

    def wrap_mcintegral(cls):
        real = cls.__mro__[1].mcintegral

        def mcintegral(self, *a, **k):
            stage(f"geom.mcintegral[{k.get('method')}]")
            if real_mcintegral:
                ret = real(self, *a, **k)
            else:
                m = k.get("method")
                ret = tuple(SV(t=z3.Real(f"{m}_{n}")) for n in ("mcint", "mcintgeo", "nevpass", "mcunc"))
                if cls is GeomToO and k.get("store") is not None:
                    k["store"](["tmcintopt" if m == "Optical" else "tmcintrad"], [sym(f"tmcint_{m}_", self.kept)])
            rec.mcintegral_calls.append({"args": a, "kwargs": k, "ret": ret})
            return ret

        cls.mcintegral = mcintegral

    wrap_mcintegral(Geom)
    wrap_mcintegral(GeomToO)

    # ---- spectra: the real module -----------------------------------------------------------
    sns = load.load("nuspacesim.simulation.spectra.spectra")
    RealSpectra = sns["Spectra"]

    class Spec(RealSpectra):
        def __call__(self, N, *a, **k):
            stage("spectra")
            r = super().__call__(N, *a, **k)
            rec.vals["log_e_nu"], rec.vals["mc_spec_norm"], rec.vals["spec_weights_sum"] = r
            return r

    # ---- taus: real __call__, kernels stubbed -----------------------------------------------
    tns = load.load("nuspacesim.simulation.taus.taus")

    class Tau(tns["Taus"]):
        def __init__(self, config):
            self.config = config

        def tau_exit_prob(self, betas, log_e_nu):
            return sym("pexit_", range(len(betas)))

        def tau_energy(self, betas, log_e_nu, u=None):
            NP.random.uniform(0.0, 1.0, size=len(betas))  # the real sampler draws one number per event
            e = sym("tauE_", range(len(betas)))
            for x in e.a:
                ctx().assume(x.t > 2)
            return e

        def __call__(self, betas, log_e_nu, *a, **k):
            stage("taus")
            r = super().__call__(betas, log_e_nu, *a, **k)
            for n, v in zip(("tauBeta", "tauLorentz", "tauEnergy", "showerEnergy", "tauExitProb"), r):
                rec.vals[n] = v
            return r

    # ---- EAS: real altDec and __call__, CphotAng stubbed --------------------------------------
    ens = load.load("nuspacesim.simulation.eas_optical.eas")

    class CphotStub:
        def __init__(self, alt):
            self.alt = alt

        def __call__(self, beta, alt, E, lat, lon, cloudf=None):
            rec.eas_args = (beta, alt, E, lat, lon, cloudf)
            n = len(beta)
            return sym("dphots_", range(n)), sym("thetaCh_", range(n))

    ens["CphotAng"] = CphotStub

    class Eas(ens["EAS"]):
        def altDec(self, *a, **k):
            stage("eas.altDec")
            r = ens["EAS"].altDec(self, *a, **k)
            rec.vals["altDec"], rec.vals["lenDec"] = r
            return r

        def __call__(self, *a, **k):
            stage("eas.optical")
            r = ens["EAS"].__call__(self, *a, **k)
            rec.vals["numPEs"], rec.vals["costhetaChEff"] = r
            return r

    # ---- radio: stubbed (reads parameter files); draws two numbers per event like the real one ----
    class Radio:
        def __init__(self, config):
            self.config = config

        def __call__(self, beta, altDec, lenDec, theta, pathLen, showerEnergy, *a, store=None, **k):
            stage("eas.radio")
            n = len(beta)
            NP.random.uniform(-1.0, 1.0, n)
            NP.random.uniform(0.0, -1.0, n)
            ef = SymArray(_np.array([[SV(t=z3.Real(f"EField_{i}_{b}")) for b in range(2)] for i in range(n)], dtype=object).reshape(n, 2))
            rec.vals["EFields"] = ef
            if store is not None:
                store(("EFields",), [ef])
            return ef

    def calculate_snr(ef, freqRange, alt, nant, gain):
        stage("radio.snr")
        r = sym("snr_", range(len(ef)))
        rec.vals["snrs"] = r
        rec.vals["snr_args"] = (ef, freqRange, alt, nant, gain)
        return r

    class Cloud:
        def __init__(self, config):
            self.config = config

        def __call__(self, *a, **k):
            return SV(t=z3.Real("cloud_top"))

    class RT:
        @staticmethod
        def init(config):
            from nuspacesim.utils.misc import flatten_dict

            meta = {"simTime": ("19700101000000", "Start time of Simulation")}
            try:
                meta.update(flatten_dict(config.model_dump(), "HIERARCH Config", sep=" "))
            except Exception:
                meta["HIERARCH Config (symbolic)"] = "not dumped"
            t = RecTable(meta, rec.fs, rec.log)
            rec.table = t
            return t

    class Console:
        def __init__(self, *a, **k):
            pass

        def log(self, *a, **k):
            pass

        def rule(self, *a, **k):
            pass

    cns = load.load("nuspacesim.compute", {
        "results_table": RT, "RegionGeom": Geom, "RegionGeomToO": GeomToO, "CloudTopHeight": Cloud, "Spectra": Spec,
        "Taus": Tau, "EAS": Eas, "EASRadio": Radio, "calculate_snr": calculate_snr, "Console": Console,
    })
    try:
        rec.result = cns["compute"](cfg, verbose=False, output_file=output_file, to_plot=[], write_stages=write_stages)
    except StageFailure as e:
        rec.exception = e
    rec.ndraws = C.ndraw
    return rec
