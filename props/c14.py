"""C14 -- a full run is channel-isolated and structurally complete (partial: the
scheduler-independence clause needs dask's schedulers and is not encoded)."""
from __future__ import annotations

import z3

from props import compute_model as cm
from symnp import core, harness
from symnp.arr import SymArray
from symnp.core import SV

ID = "C14"
META = {
    "bounds": {
        "quick": "real compute() body with 2 thrown events and a symbolic survival mask (all 4 patterns incl. no survivor) for all 48 structural configurations {Diffuse, Target} x {mono, power-law} x {no cloud, uniform cloud, pressure map} x {optical on/off} x {radio on/off}; numeric content symbolic",
        "thorough": "3 thrown events (8 survival patterns)",
    },
    "outside_bounds": ["bit-identical results under different dask schedulers (C10: not applicable) -- the reproducibility clause is NOT claimed", "the real FITS table object (astropy)", "numeric content of the stage kernels (their own properties)"],
    "stubs": ["astropy Table -> recording table with astropy's length/duplicate-name checks", "stage kernels -> symbolic columns; the global random generator -> a draw counter (every draw is a fresh symbol named by its position in the global sequence)",
              "CloudTopHeight, EASRadio, calculate_snr, CphotAng -> recorders (EASRadio draws 2 numbers per event like the real one)"],
    "assumptions": ["channel isolation is established at the level of compute()'s wiring, the shared geometry object (real mcintegral) and the global draw sequence; the kernels themselves are pure (C11)"],
}
LEDGER = {"quick": 3000, "thorough": 6000}

BASE = ["beta_rad", "theta_rad", "path_len"]
MID = ["init_lat", "init_lon", "log_e_nu", "tauBeta", "tauLorentz", "tauEnergy", "showerEnergy", "tauExitProb", "altDec", "lenDec"]
OKEYS = ("OMCINT", "OMCINTGO", "ONEVPASS", "OMCINTUN")
RKEYS = ("RMCINT", "RMCINTGO", "RNEVPASS", "RMCINTUN")


def expected_columns(mode, optical, radio):
    cols = BASE + (["times"] if mode == "Target" else []) + MID
    if optical:
        cols += ["numPEs", "costhetaChEff"] + (["tmcintopt"] if mode == "Target" else [])
    if radio:
        cols += ["EFields"] + (["tmcintrad"] if mode == "Target" else [])
    return cols


def _col_eq(a, b):
    """z3 formula: the two columns are equal element by element (False on a shape mismatch)."""
    a, b = SymArray(a), SymArray(b)
    if a.shape != b.shape:
        return z3.BoolVal(False)
    return z3.And(*[SV.of(x).term() == SV.of(y).term() for x, y in zip(a.a.reshape(-1), b.a.reshape(-1))]) if a.size else z3.BoolVal(True)


def _meta_eq(a, b):
    return SV.of(a[0]).term() == SV.of(b[0]).term()


def structure_run(mode, spectrum, cloud, optical, radio, thrown):
    def run(C):
        rec = cm.run_compute(mode=mode, optical=optical, radio=radio, thrown=thrown, spectrum=spectrum, cloud=cloud, real_mcintegral=True)
        t = rec.table
        claims = {}
        claims["compute() completes and returns the table"] = z3.BoolVal(rec.exception is None and rec.result is t)
        kept = None
        for lit in ():
            pass
        n_cols = len(t)
        if n_cols == 0:
            # no trajectory survived: empty but valid table (the geometry columns exist with length 0)
            claims["no survivor: empty table (zero rows, geometry columns only) with header metadata, no failure, no later stage run"] = z3.BoolVal(
                len(t) == 0 and "simTime" in t.meta and not any(k in t.meta for k in OKEYS + RKEYS) and rec.stage_calls == ["geom.throw"]
                and list(t.cols) == BASE + (["times"] if mode == "Target" else []) and all(len(c) == 0 for c in t.cols.values()))
        else:
            s = len(t)
            claims["one row per surviving trajectory, at least one"] = z3.BoolVal(s >= 1 and s <= thrown)
            claims["every stored column has that length"] = z3.BoolVal(all(len(c) == s for c in t.cols.values()))
            claims["column set is exactly the union of the enabled stages' columns"] = z3.BoolVal(sorted(t.cols) == sorted(expected_columns(mode, optical, radio)))
            claims["the four integral keywords of each enabled channel are present, none of a disabled one"] = z3.BoolVal(
                all((k in t.meta) == optical for k in OKEYS) and all((k in t.meta) == radio for k in RKEYS))
            # cross-stage consistency: every stage consumed the same surviving events
            v = rec.vals
            try:
                consistent = z3.And(
                    _col_eq(t["tauEnergy"], v["tauEnergy"]), _col_eq(t["altDec"], v["altDec"]), _col_eq(t["log_e_nu"], v["log_e_nu"]),
                    z3.BoolVal(not radio or v["snr_args"][0] is v["EFields"]))
            except KeyError:  # a stage's column is missing from the table altogether
                consistent = z3.BoolVal(False)
            claims["stages are mutually consistent: stored columns are the values handed downstream (tau energy, decay altitude, neutrino energy, radio field)"] = consistent
        # ---- channel isolation: rerun with the other channel switched off, same seed ------------
        if n_cols and optical and radio and sorted(t.cols) == sorted(expected_columns(mode, optical, radio)):
            C.ndraw = 0
            rec_o = cm.run_compute(mode=mode, optical=True, radio=False, thrown=thrown, spectrum=spectrum, cloud=cloud, real_mcintegral=True, cfg=_clone_cfg(rec.cfg, True, False))
            C.ndraw = 0
            rec_r = cm.run_compute(mode=mode, optical=False, radio=True, thrown=thrown, spectrum=spectrum, cloud=cloud, real_mcintegral=True, cfg=_clone_cfg(rec.cfg, False, True))
            ocols = ["numPEs", "costhetaChEff"] + (["tmcintopt"] if mode == "Target" else [])
            rcols = ["EFields"] + (["tmcintrad"] if mode == "Target" else [])
            shared = BASE + (["times"] if mode == "Target" else []) + MID
            claims["radio off: every optical column and header value unchanged"] = z3.And(
                *[_col_eq(t[c], rec_o.table[c]) for c in ocols + shared], *[_meta_eq(t.meta[k], rec_o.table.meta[k]) for k in OKEYS])
            claims["optical off: every radio column and header value unchanged"] = z3.And(
                *[_col_eq(t[c], rec_r.table[c]) for c in rcols + shared], *[_meta_eq(t.meta[k], rec_r.table.meta[k]) for k in RKEYS])
            d = dict(rec.draws_by_stage)
            claims["the global random sequence reaches each stage at the same position with a channel switched off"] = z3.BoolVal(
                dict(rec_o.draws_by_stage).get("eas.optical") == d.get("eas.optical") and dict(rec_r.draws_by_stage).get("eas.radio") == d.get("eas.radio")
                and dict(rec_r.draws_by_stage).get("eas.altDec") == d.get("eas.altDec"))
        return harness.Out(claims=claims, skip_defd=lambda tag_, where: "structural harness: numeric primitives are uninterpreted", info={"rows": len(t), "columns": list(t.cols)})

    return run


def _clone_cfg(cfg, optical, radio):
    c = cfg.model_copy(deep=False)
    c.detector = cfg.detector.model_copy(deep=False)
    c.detector.optical = cfg.detector.optical.model_copy(deep=False)
    c.detector.radio = cfg.detector.radio.model_copy(deep=False)
    c.detector.optical.enable = optical
    c.detector.radio.enable = radio
    return c


def job_structure(mode, spectrum, cloud, optical, radio, thrown, tier):
    return harness.run_job(f"compute({mode},{spectrum},{cloud},optical={optical},radio={radio},thrown={thrown})", structure_run(mode, spectrum, cloud, optical, radio, thrown),
                           timeout_ms=20000, prune_timeout_ms=2000)


def jobs(tier, seed):
    n = 2 if tier == "quick" else 3
    out = []
    for mode in ("Diffuse", "Target"):
        for sp in ("mono", "power"):
            for cl in ("none", "mono", "map"):
                for o in (True, False):
                    for r in (True, False):
                        out.append((f"{mode}{sp}{cl}{o}{r}", "job_structure", {"mode": mode, "spectrum": sp, "cloud": cl, "optical": o, "radio": r, "thrown": n, "tier": tier}))
    return out


VALIDATE_JOB = "objects shipped to dask workers (pickle round trip)"
PICKLE_OB = "the shower kernel object that dask serialises for process / distributed schedulers arrives with the state it was built with"


def _pickle_probe():
    """The scheduler clause itself (bit-identical tables under every dask scheduler) is not encoded (DESIGN.md 4, C10).
    What CAN be probed cheaply is the one thing a serialising scheduler does to the code under test: it pickles the
    CphotAng instance (bound method in the bag's map).  A round trip through cloudpickle must preserve every
    attribute and the result of run() bit for bit, for a detector altitude other than the default."""
    import warnings

    import cloudpickle
    import numpy as np

    from nuspacesim.simulation.eas_optical.cphotang import CphotAng

    warnings.simplefilter("ignore")
    bad = []
    for alt in (33.0, 1000.0):
        a = CphotAng(alt)
        b = cloudpickle.loads(cloudpickle.dumps(a))
        va, vb = vars(a), vars(b)
        diff = [k for k in va if k not in vb or not (np.array_equal(va[k], vb[k]) if isinstance(va[k], np.ndarray) else va[k] == vb[k])]
        if diff:
            bad.append((PICKLE_OB, f"CphotAng({alt}) after a cloudpickle round trip: attributes {diff} differ (detector_altitude {getattr(b, 'detector_altitude', None)!r} instead of {alt!r})"))
            continue
        ra, rb = a.run(0.2, 2.0, 1.0, 0.1, 0.2, None), b.run(0.2, 2.0, 1.0, 0.1, 0.2, None)
        if not (np.array_equal(ra[0], rb[0]) and np.array_equal(ra[1], rb[1])):
            bad.append((PICKLE_OB, f"CphotAng({alt}).run differs after a cloudpickle round trip: {ra} vs {rb}"))
    return bad


def validate(seed, tier):
    bad = _pickle_probe()
    return 2, [{"obligation": ob_, "verdict": "sat", "kind": "claim", "time_s": 0.0, "model": {}, "detail": det,
                "reason": "concrete probe of an assumption about a layer that is not encoded (dask serialisation)"} for ob_, det in bad]


def replay(v):
    """Real compute() on a small run (synchronous dask scheduler), checking the structural predicate."""
    import sys
    import warnings

    import dask
    import numpy as np

    import nuspacesim  # noqa: F401
    from nuspacesim.config import NssConfig, Simulation

    dask.config.set(scheduler="synchronous")
    comp = sys.modules["nuspacesim.compute"]
    job, ob = v.get("job", ""), v["obligation"]
    if job == VALIDATE_JOB:
        bad = _pickle_probe()
        if bad:
            return {"reproduced": True, "key": "shower kernel object does not survive serialisation to a dask worker", "detail": bad[0][1]}
        return {"reproduced": False, "key": None, "detail": "pickle round trip preserves the kernel object"}
    args = job[len("compute("):].split(",")
    mode, sp = args[0], args[1]
    optical, radio = "optical=True" in job, "radio=True" in job
    target = mode == "Target"

    def mk(o, r, thrown=None):
        cfg = NssConfig()
        if target:
            cfg.simulation.mode = "Target"
            cfg.simulation.spectrum.log_nu_energy = 10.0
        cfg.simulation.thrown_events = thrown or (2000 if target else 120)
        cfg.detector.optical.enable, cfg.detector.radio.enable = o, r
        if sp == "power":
            cfg.simulation.spectrum = Simulation.PowerSpectrum(index=2.0, lower_bound=8.0, upper_bound=9.0)
        return cfg

    def runit(cfg):
        np.random.seed(11)
        with warnings.catch_warnings():
            warnings.simplefilter("ignore")
            return comp.compute(cfg)

    try:
        if "no survivor" in ob:
            cfg = mk(optical, radio, thrown=1)
            cfg.simulation.angle_from_limb = 1e-9
            if not target:
                from nuspacesim.simulation.geometry.region_geometry import RegionGeom

                for sd in range(200):  # a seed for which the single thrown trajectory does not survive
                    np.random.seed(sd)
                    g_ = RegionGeom(cfg)
                    g_.throw(1)
                    if not g_.event_mask.any():
                        break
                with warnings.catch_warnings():
                    warnings.simplefilter("ignore")
                    np.random.seed(sd)
                    t = comp.compute(cfg)
            else:
                t = runit(cfg)
            if len(t.colnames) and len(t) == 0:
                return {"reproduced": True, "key": "empty run is not an empty valid table", "detail": f"columns {t.colnames}"}
            return {"reproduced": False, "key": None, "detail": "ok"}
        t = runit(mk(optical, radio))
    except Exception as ex:
        return {"reproduced": True, "key": f"compute() raises {type(ex).__name__}", "detail": f"compute raised {type(ex).__name__}: {ex} for {job}"}
    bad = None
    if "column set" in ob and sorted(t.colnames) != sorted(expected_columns(mode, optical, radio)):
        bad = f"columns {sorted(t.colnames)} expected {sorted(expected_columns(mode, optical, radio))}"
    if "keywords" in ob and not (all((k in t.meta) == optical for k in OKEYS) and all((k in t.meta) == radio for k in RKEYS)):
        bad = f"header keywords {[k for k in t.meta if k in OKEYS + RKEYS]}"
    if "radio off" in ob or "optical off" in ob or "random sequence" in ob:
        if not (optical and radio):
            t = runit(mk(True, True))
        to, tr = runit(mk(True, False)), runit(mk(False, True))
        for c in ("numPEs", "costhetaChEff") + (("tmcintopt",) if target else ()):
            if not np.array_equal(np.asarray(t[c]), np.asarray(to[c]), equal_nan=True):
                bad = f"optical column {c} changes when radio is switched off"
        for c in ("EFields",) + (("tmcintrad",) if target else ()):
            if not np.array_equal(np.asarray(t[c]), np.asarray(tr[c]), equal_nan=True):
                bad = f"radio column {c} changes when optical is switched off"
        for c in MID + [b for b in BASE if b != "times"]:
            for other, nm in ((to, "radio"), (tr, "optical")):
                if c in t.colnames and c in other.colnames and not np.array_equal(np.asarray(t[c]), np.asarray(other[c]), equal_nan=True):
                    bad = f"shared column {c} changes when {nm} is switched off"
        for k in OKEYS:
            if t.meta[k][0] != to.meta[k][0] and not (np.isnan(t.meta[k][0]) and np.isnan(to.meta[k][0])):
                bad = f"optical keyword {k} changes when radio is switched off: {t.meta[k][0]} vs {to.meta[k][0]}"
        for k in RKEYS:
            if t.meta[k][0] != tr.meta[k][0] and not (np.isnan(t.meta[k][0]) and np.isnan(tr.meta[k][0])):
                bad = f"radio keyword {k} changes when optical is switched off: {t.meta[k][0]} vs {tr.meta[k][0]}"
    if bad is None and ("column set" in ob or "keywords" in ob or "every stored column" in ob or "one row per" in ob) and not target:
        # the same structural predicate on a run with exactly ONE surviving trajectory (a symbolic survival pattern of its own)
        try:
            np.random.seed(0)
            with warnings.catch_warnings():
                warnings.simplefilter("ignore")
                t1 = comp.compute(mk(optical, radio, thrown=1))
        except Exception as ex:
            return {"reproduced": True, "key": f"compute() raises {type(ex).__name__} for a one-survivor run", "detail": f"{type(ex).__name__}: {ex} ({job})"}
        if len(t1) == 1:
            if sorted(t1.colnames) != sorted(expected_columns(mode, optical, radio)):
                bad = f"one surviving trajectory: columns {sorted(t1.colnames)} expected {sorted(expected_columns(mode, optical, radio))}"
            elif not (all((k in t1.meta) == optical for k in OKEYS) and all((k in t1.meta) == radio for k in RKEYS)):
                bad = f"one surviving trajectory: header keywords {[k for k in t1.meta if k in OKEYS + RKEYS]}"
    if bad:
        return {"reproduced": True, "key": "full run: " + bad.split(":")[0][:70], "detail": bad + f" ({job})"}
    return {"reproduced": False, "key": None, "detail": "real run satisfies the structural predicate"}


MANIFEST_ENTRY = {
    "level_text": "Partial claim. The real compute() body (real decorators, accessors, StagedWriter, early return; real mcintegral of both geometry classes) is executed symbolically for all 48 structural configurations with a symbolic survival mask (every pattern of 2 (quick) / 3 (thorough) thrown events including 'none survives'): one row per surviving trajectory, every column of that length, the column set exactly the union of the enabled stages, the four keywords per enabled channel, a valid empty table when nothing survives, cross-stage consistency of the columns handed downstream, and channel isolation -- with the global generator modelled as a draw counter, every optical (radio) column and header value is term-identical with the radio (optical) channel switched off, and each stage is reached at the same position of the random sequence.",
    "level_note": "The scheduler clause is not encoded; a concrete probe checks that the shower-kernel object survives a cloudpickle round trip (what a serialising scheduler does to it). Paths with one survivor and missing stage columns are counterexamples and are replayed on a one-survivor run. NOT covered: bit-identical results under different dask schedulers (needs dask's schedulers; C10 not applicable) -- that clause is not claimed. Stage kernels are stubs returning symbolic columns; the table is a recording stub with astropy's length and duplicate checks.",
    "technique": "symbolic execution of the real compute() (DFS over survival patterns, z3 feasibility) with term identity for the isolation clauses",
}
