"""C11 -- every per-event stage is a pure, order-independent function of its inputs."""
from __future__ import annotations

import itertools
from fractions import Fraction as Fr

import numpy as _np
import z3

from props import c04 as P4
from props import c13 as P13
from symnp import core, harness, load, stubs
from symnp.arr import SymArray, symarr
from symnp.core import PI, SV
from symnp.shim import NP

ID = "C11"
META = {
    "bounds": {
        "quick": "N=3 symbolic events per stage with symbolic per-event random numbers; all 6 permutations, both split points, two consecutive calls on one object; stages: vec_1d_interp, grid_cdf_sampler, Taus.tau_exit_prob, Taus.tau_energy, Taus.__call__, EAS.altDec, EAS.__call__, calculate_snr, RegionGeomToO.generate_times / throw; interpolation rows of M=2 nodes",
        "thorough": "additionally RegionGeom.throw (N=2) and EASRadio.__call__ (repeat / no-mutation), M=3 rows",
    },
    "outside_bounds": ["the 8192-element nditer buffer boundary is modelled on a small batch (N=3 handed out in chunks of 2 by the iterator stub; sat verdicts are replayed on a real batch of 8264 events); chunk sizes other than 2 and the iterator's C code itself are outside", "N > 3", "stages whose random numbers cannot be supplied per event (EASRadio, power-law spectrum) are checked for repeatability and input preservation only"],
    "stubs": ["np.nditer -> one chunk, and (job sampler_chunk) consecutive chunks of 2", "scipy interpn / RegularGridInterpolator -> reference multilinear interpolation", "CphotAng -> per-event uninterpreted function of that event's inputs", "astropy Time/TimeDelta and ToOEvent -> symbolic (see C13)",
              "astropy in ToOEvent (job tooframes) -> model: times with identities and symbolic Julian dates, a frame remembers its times, a transformed coordinate has one symbol per (object, coordinate time, frame time)"],
    "assumptions": ["equality of results is established twice: identity of the EUF shadow terms (same uninterpreted operations on the same operands in the same order: bit-for-bit under any arithmetic) and solver equality over the reals",
                    "alias tracking: an in-place operator or indexed store whose target shares storage with a harness-supplied input is reported as a mutation of the input"],
}
LEDGER = {"quick": 1185, "thorough": 1500}


def _cells(x):
    if isinstance(x, SymArray):
        return [x.a[i] for i in _np.ndindex(*x.a.shape)] if x.a.ndim > 1 else list(x.a)
    return [SV.of(x)]


def _rows(x, n):
    """per-event rows of an output (first axis = events)"""
    a = SymArray(x) if not isinstance(x, SymArray) else x
    if a.ndim == 1:
        return [[a.a[i]] for i in range(n)]
    return [list(a.a[i].reshape(-1)) for i in range(n)]


def _same(r1, r2):
    """(bit-level identity, z3 formula for real equality) of two rows"""
    if len(r1) != len(r2):
        return False, z3.BoolVal(False)
    ident = all(core.eterm(a).eq(core.eterm(b)) for a, b in zip(r1, r2))
    fs = []
    for a, b in zip(r1, r2):
        a, b = SV.of(a), SV.of(b)
        if a.kind == "B" or b.kind == "B":
            fs.append(core._b(a).term() == core._b(b).term())
        else:
            fs.append(a.term() == b.term())
    return ident, z3.And(*fs) if fs else z3.BoolVal(True)


def order_claims(C, name, stage, cols, N, extra_state=None, perms=None, repeat_obj=True):
    """stage(cols: dict name -> SymArray of N events) -> tuple of per-event outputs."""
    C.simplify_stores = False  # masked stores are always merged the same way: comparable operation terms
    claims = {}
    snap = {k: [core.eterm(e) for e in v.a.reshape(-1)] for k, v in cols.items()}
    for k, v in cols.items():
        v.tag = k
    ev0 = len(C.events)
    base = stage(cols)
    base = base if isinstance(base, tuple) else (base,)
    nout = len(base)
    mut = [e for e in C.events[ev0:] if e[0] == "mutate-input"]
    unchanged = all([core.eterm(e) for e in v.a.reshape(-1)] == snap[k] or all(x.eq(y) for x, y in zip([core.eterm(e) for e in v.a.reshape(-1)], snap[k])) for k, v in cols.items())
    claims[f"{name}: no input array is modified"] = z3.BoolVal(not mut and unchanged)
    for v in cols.values():
        v.tag = None
    rows = [_rows(o, N) for o in base]
    claims[f"{name}: one output row per event"] = z3.BoolVal(all(len(SymArray(o)) == N for o in base))

    def sub(idx):
        return {k: SymArray(v.a[list(idx)].copy(), v.kind) for k, v in cols.items()}

    for perm in (perms if perms is not None else list(itertools.permutations(range(N)))[1:]):
        out = stage(sub(perm))
        out = out if isinstance(out, tuple) else (out,)
        ok_i, fs = True, []
        for o, rw in zip(out, rows):
            r2 = _rows(o, N)
            for pos, src in enumerate(perm):
                i, f = _same(r2[pos], rw[src])
                ok_i, fs = ok_i and i, fs + [f]
        claims[f"{name}: permutation {perm} permutes the outputs (bit-level: identical operation terms)"] = z3.BoolVal(ok_i)
        claims[f"{name}: permutation {perm} permutes the outputs (solver, reals)"] = z3.And(*fs)
    for k in range(1, N):
        o1, o2 = stage(sub(range(0, k))), stage(sub(range(k, N)))
        o1 = o1 if isinstance(o1, tuple) else (o1,)
        o2 = o2 if isinstance(o2, tuple) else (o2,)
        ok_i, fs = True, []
        for a, b, rw in zip(o1, o2, rows):
            got = _rows(a, k) + _rows(b, N - k)
            for j in range(N):
                i, f = _same(got[j], rw[j])
                ok_i, fs = ok_i and i, fs + [f]
        claims[f"{name}: split at {k} and concatenate == whole batch (bit-level)"] = z3.BoolVal(ok_i)
        claims[f"{name}: split at {k} and concatenate == whole batch (solver, reals)"] = z3.And(*fs)
    if repeat_obj:
        again = stage(cols)
        again = again if isinstance(again, tuple) else (again,)
        ok_i, fs = True, []
        for o, rw in zip(again, rows):
            r2 = _rows(o, N)
            for j in range(N):
                i, f = _same(r2[j], rw[j])
                ok_i, fs = ok_i and i, fs + [f]
        claims[f"{name}: a repeated call on the same object gives identical results (bit-level)"] = z3.BoolVal(ok_i)
        claims[f"{name}: a repeated call on the same object gives identical results (solver, reals)"] = z3.And(*fs)
    return claims


# ---------------------------------------------------------------------------------
def interp_run(N, M):
    def run(C):
        C.euf = True
        ins = load.load("nuspacesim.utils.interp", {"interp1d": stubs.interp1d, "NssGrid": stubs.GridStub})
        ys = symarr([f"ys{k}" for k in range(M)])
        xs = SymArray(_np.array([[SV(t=z3.Real(f"xs{r}_{k}")) for k in range(M)] for r in range(N)], dtype=object).reshape(N, M), "float")
        x = symarr([f"x{r}" for r in range(N)])
        for r in range(N):
            for k in range(M - 1):
                C.assume(z3.Real(f"xs{r}_{k}") <= z3.Real(f"xs{r}_{k+1}"))
            C.assume(z3.Real(f"xs{r}_0") < z3.Real(f"x{r}"), z3.Real(f"x{r}") < z3.Real(f"xs{r}_{M-1}"))
        claims = order_claims(C, "vec_1d_interp", lambda c: ins["vec_1d_interp"](c["xs"], ys, c["x"]), {"xs": xs, "x": x}, N)
        return harness.Out(claims=claims)

    return run


def sampler_run(N, M, chunk=None):
    def run(C):
        C.euf = True
        NP.nditer.chunk = chunk  # None: one chunk; c: the iterator hands the batch out in chunks of c events
        _ins, cns, tns = P4._load()
        g, E, B, F = P4.mk_cell(C, M, exact_last=True)
        le, be, u = (symarr([f"{n}{i}" for i in range(N)]) for n in ("logE", "beta", "u"))
        for i in range(N):
            C.assume(z3.Real(f"logE{i}") >= E[0], z3.Real(f"logE{i}") <= E[1], z3.Real(f"beta{i}") >= B[0], z3.Real(f"beta{i}") <= B[1])
            row = P4._row_at(E, B, z3.Real(f"logE{i}"), z3.Real(f"beta{i}"), M)
            C.assume(z3.Real(f"u{i}") > row[0], z3.Real(f"u{i}") < row[M - 1])
        sample = cns["grid_cdf_sampler"](g)
        claims = order_claims(C, "grid_cdf_sampler", lambda c: sample(c["logE"], c["beta"], c["u"]), {"logE": le, "beta": be, "u": u}, N, repeat_obj=True)
        return harness.Out(claims=claims)

    return run


def taus_run(N, which):
    def run(C):
        C.euf = True
        _ins, cns, tns = P4._load()
        g, E, B, F = P4.mk_cell(C, 2, exact_last=True)
        T = object.__new__(tns["Taus"])
        T.tau_cdf_grid = g
        data = _np.empty((2, 2), dtype=object)
        for i in range(2):
            for j in range(2):
                data[i, j] = SV(t=z3.Real(f"T{i}{j}"))
                C.assume(z3.Real(f"T{i}{j}") <= 1)
        T.pexit_grid = stubs.GridStub(SymArray(data), [g["log_e_nu"], g["beta_rad"]], ["log_e_nu", "beta_rad"])
        T.config = type("Cfg", (), {"simulation": type("S", (), {"tau_shower": type("TS", (), {"etau_frac": SV(t=z3.Real("etau_frac"))})()})()})()
        C.assume(z3.Real("etau_frac") > 0, z3.Real("etau_frac") <= 1)
        le, be, u = (symarr([f"{n}{i}" for i in range(N)]) for n in ("logE", "beta", "u"))
        for i in range(N):
            C.assume(z3.Real(f"logE{i}") >= E[0], z3.Real(f"logE{i}") <= E[1], z3.Real(f"beta{i}") >= 0, z3.Real(f"u{i}") > 0, z3.Real(f"u{i}") < 1)
        if which == "exit":
            pristine = T.pexit_grid.data.copy()

            def stage(c):
                # same table state for every compared call: the in-place flooring of the table is idempotent
                # (history independence is C05's inductive obligation)
                T.pexit_grid.data = pristine.copy()
                return T.tau_exit_prob(c["beta"], c["logE"])

            claims = order_claims(C, "Taus.tau_exit_prob", stage, {"beta": be, "logE": le}, N)
        else:
            claims = order_claims(C, "Taus.tau_energy", lambda c: T.tau_energy(c["beta"], c["logE"], c["u"]), {"beta": be, "logE": le, "u": u}, N)
        return harness.Out(claims=claims, skip_defd=lambda t, w: "definedness is C04/C05's obligation")

    return run


def eas_run(N, which):
    def run(C):
        C.euf = True
        ens = load.load("nuspacesim.simulation.eas_optical.eas")

        class Cphot:
            def __init__(self, alt):
                pass

            def __call__(self, *cols, **kw):
                # whatever per-event columns the stage hands over (five on the pinned tree: beta, altitude, energy, latitude,
                # longitude, plus the cloud model): zipped like the real kernel does (a longer column is silently truncated);
                # each event's result is an uninterpreted function of the values in ITS row
                arrs = [c for c in list(cols) + list(kw.values()) if isinstance(c, (SymArray, _np.ndarray, list, tuple))]
                n = min(len(a) for a in arrs)
                k = len(arrs)
                d = SymArray([core._opaque(f"rho{k}", *[a[i] for a in arrs]) for i in range(n)], "float")
                t = SymArray([core._opaque(f"thetaCh{k}", *[a[i] for a in arrs]) for i in range(n)], "float")
                return d, t

        ens["CphotAng"] = Cphot
        opt = type("O", (), {"telescope_effective_area": SV(t=z3.Real("area")), "quantum_efficiency": SV(t=z3.Real("qe")), "photo_electron_threshold": SV(t=z3.Real("thr"))})()
        C.assume(z3.Real("area") > 0, z3.Real("qe") > 0, z3.Real("thr") > 0)
        cfg = type("Cfg", (), {"detector": type("D", (), {"optical": opt, "initial_position": type("P", (), {"altitude": SV(c=Fr(525))})()})()})()
        eas = ens["EAS"](cfg)
        if which == "altDec":
            beta = SymArray([core.free_angle(f"beta{i}") for i in range(N)])
            tb, tl, u = (symarr([f"{n}{i}" for i in range(N)]) for n in ("tauBeta", "tauLorentz", "u"))
            for i in range(N):
                # (u == 0 is a legal draw of uniform [0, 1): the decay length is then infinite)
                C.assume(z3.Real(f"u{i}") >= 0, z3.Real(f"u{i}") <= 1, z3.Real(f"tauBeta{i}") > 0, z3.Real(f"tauLorentz{i}") >= 1, z3.Real(f"beta{i}") >= 0, z3.Real(f"beta{i}") <= PI / 2)
            claims = order_claims(C, "EAS.altDec", lambda c: eas.altDec(c["beta"], c["tauBeta"], c["tauLorentz"], c["u"]), {"beta": beta, "tauBeta": tb, "tauLorentz": tl, "u": u}, N)
        else:
            cols = {n: symarr([f"{n}{i}" for i in range(N)]) for n in ("beta", "altDec", "E", "lat", "lon")}

            def cloudf(lat, lon):  # a location-dependent cloud model: one uninterpreted value per (latitude, longitude)
                if isinstance(lat, SymArray) or isinstance(lon, SymArray):
                    la, lo = SymArray(lat) if not isinstance(lat, SymArray) else lat, SymArray(lon) if not isinstance(lon, SymArray) else lon
                    return SymArray([core._opaque("cloudtop", la[i], lo[i]) for i in range(len(la))], "float")
                return core._opaque("cloudtop", lat, lon)

            claims = order_claims(C, "EAS.__call__", lambda c: eas(c["beta"], c["altDec"], c["E"], c["lat"], c["lon"], cloudf=cloudf), cols, N)
        return harness.Out(claims=claims, skip_defd=lambda t, w: "definedness is C07/C08's obligation")

    return run


def snr_run(N):
    def run(C):
        C.euf = True
        from props.c20 import _load_antenna

        ns = _load_antenna((30, 80), 525.0)
        E = SymArray(_np.array([[SV(t=z3.Real(f"E{i}_{b}")) for b in range(5)] for i in range(N)], dtype=object).reshape(N, 5), "float")
        claims = order_claims(C, "calculate_snr", lambda c: ns["calculate_snr"](c["E"], (30, 80), 525.0, 10, Fr(18, 10)), {"E": E}, N)
        return harness.Out(claims=claims)

    return run


def too_run(N):
    def run(C):
        C.euf = True
        ns = P13._load()
        g, R, h, limb, T, t0, alts, seen = P13._mk_geom(C, ns, N)
        # explicit array of fractions of the observation time, supplied by the caller
        times = symarr([f"frac{i}" for i in range(N)])
        before = [core.eterm(e) for e in times.a]
        times.tag = "times"
        ev0 = len(C.events)
        out = g.generate_times(times)
        mut = [e for e in C.events[ev0:] if e[0] == "mutate-input"]
        after = [core.eterm(e) for e in times.a]
        claims = {
            "RegionGeomToO.generate_times: the caller's array of times is not modified": z3.BoolVal(not mut and all(a.eq(b) for a, b in zip(before, after))),
            "RegionGeomToO.generate_times: result == t0 + T * fraction": z3.And(*[SV.of(out.value[i]).term() == t0 + T * z3.Real(f"frac{i}") for i in range(N)]),
        }
        times.tag = None
        fresh = symarr([f"frac{i}" for i in range(N)])
        again = g.generate_times(fresh)
        claims["RegionGeomToO.generate_times: a second call with the same fractions gives the same times"] = z3.And(
            *[SV.of(again.value[i]).term() == SV.of(out.value[i]).term() for i in range(N)])
        inputs = {f"frac{i}": z3.Real(f"frac{i}") for i in range(N)}
        inputs["T_obs"] = T
        return harness.Out(claims=claims, inputs=inputs)

    return run


# ---------------------------------------------------------------------------------
# ToOEvent: every coordinate / ephemeris is evaluated at the times it is asked for
class _AstroModel:
    """astropy stand-in for ToOEvent: times are arrays of symbolic Julian dates with identities; a frame
    remembers the times it was built for; a transformed coordinate has one altitude/azimuth symbol per
    (object, time of the coordinate, time of the frame).  This is the dependence the real astropy has;
    the values themselves are free symbols."""

    class Times:
        def __init__(self, ids, scalar=False):
            self.ids, self.isscalar = list(ids), scalar

        shape = property(lambda self: () if self.isscalar else (len(self.ids),))
        size = property(lambda self: len(self.ids))
        jd = property(lambda self: SV(t=z3.Real(f"jd{self.ids[0]}")) if self.isscalar else SymArray([SV(t=z3.Real(f"jd{i}")) for i in self.ids], "float"))
        mjd = jd
        value = jd

        def __len__(self):
            return len(self.ids)

        def __getitem__(self, k):
            if isinstance(k, (int, _np.integer)):
                return _AstroModel.Times([self.ids[k]], True)
            return _AstroModel.Times(list(_np.array(self.ids)[k]))

        def _ext(self, hi):
            best = self.ids[0]
            for i in self.ids[1:]:
                a, b = z3.Real(f"jd{i}"), z3.Real(f"jd{best}")
                if bool(SV(t=(a > b) if hi else (a < b), kind="B")):
                    best = i
            return _AstroModel.Times([best], True)

        def min(self):
            return self._ext(False)

        def max(self):
            return self._ext(True)

    class Frame:
        def __init__(self, obstime=None, location=None):
            self.obstime, self.location = obstime, location

    class Coord:
        def __init__(self, what, times=None):
            self.what, self.times = what, times

        def transform_to(self, frame):
            ft = frame.obstime
            ids = ft.ids
            own = self.times.ids if self.times is not None else [None] * len(ids)
            if len(own) != len(ids):
                raise ValueError("operands could not be broadcast together")
            sym = lambda q: SymArray([SV(t=z3.Real(f"{self.what}_{q}[coord@{o},frame@{f}]")) for o, f in zip(own, ids)], "float")  # noqa
            alt = type("Alt", (), {"rad": sym("alt"), "deg": sym("altdeg")})()
            az = type("Az", (), {"rad": sym("az"), "deg": sym("azdeg")})()
            return type("Local", (), {"alt": alt, "az": az, "frame_times": list(ids)})()

    @classmethod
    def module(cls):
        import types as _t

        m = _t.ModuleType("astropy_model")
        m.time = _t.SimpleNamespace(Time=lambda *a, **k: cls.Times([0], True))
        m.coordinates = _t.SimpleNamespace(
            AltAz=cls.Frame, SkyCoord=lambda **k: cls.Coord("source"), EarthLocation=lambda **k: ("location", tuple(sorted(k))),
            get_body=lambda name, time: cls.Coord(name, time))
        return m


def tooframes_run(N):
    def run(C):
        A = _AstroModel
        ns = load.load("nuspacesim.simulation.geometry.too", {"astropy": A.module()})
        cfgns = type("NS", (), {})
        sm = type("SM", (), {"sun_alt_cut": SV(t=z3.Real("sun_alt_cut")), "moon_alt_cut": SV(t=z3.Real("moon_alt_cut")), "moon_min_phase_angle_cut": SV(t=z3.Real("phase_cut"))})()
        pos = type("P", (), {"latitude": 0.3, "longitude": 1.0, "altitude": 525.0})()
        tgt = type("T", (), {"source_RA": 0.5, "source_DEC": 0.2, "source_date": "2022-06-02T01:00:00", "source_date_format": "isot", "source_obst": 86400.0})()
        cfg = type("Cfg", (), {"detector": type("D", (), {"sun_moon": sm, "initial_position": pos})(), "simulation": type("S", (), {"target": tgt})()})()
        too = ns["ToOEvent"](cfg)
        for i in range(N - 1):
            C.assume(z3.Real(f"jd{i}") != z3.Real(f"jd{i+1}"))
        ids = list(range(N))
        orders = [ids, ids[::-1], ids[1:] + ids[:1], ids[:-1], ids]
        claims = {}
        for k, order in enumerate(orders):
            T = A.Times(order)
            for name, fn in (("localcoords", too.localcoords), ("get_sun", too.get_sun), ("get_moon", too.get_moon)):
                r = fn(T)
                what = {"localcoords": "source", "get_sun": "sun", "get_moon": "moon"}[name]
                own = [None] * len(order) if name == "localcoords" else order
                want = [f"{what}_alt[coord@{o},frame@{f}]" for o, f in zip(own, order)]
                got = [str(SV.of(x).term()) for x in r.alt.rad.a]
                claims[f"ToOEvent.{name}: call {k + 1} (times in order {order}) is evaluated at exactly the times given, whatever was asked before on the same object"] = z3.BoolVal(got == want)
        return harness.Out(claims=claims, inputs={f"jd{i}": z3.Real(f"jd{i}") for i in range(N)})

    return run


_KERNEL_HELPERS = ("theta_view", "theta_prop", "e0", "cherenkov_threshold_angle", "tracklen", "d_to_det", "cher_ang_sig_i", "cherenkov_area", "aerosol_model")


def _helper_args(helper, K, sfx):
    """symbolic arguments of one call of a CphotAng helper (K shower segments); names carry the call's suffix"""

    def arr(n, k=K):
        return symarr([f"{n}{sfx}{i}" for i in range(k)])

    def sc(n):
        return SV(t=z3.Real(n + sfx))

    zs = arr("z")
    table = {
        "theta_view": lambda: (sc("betaE"),),
        "theta_prop": lambda: (zs.copy(), sc("sinThetView")),
        "valid_arrays": lambda: (zs.copy(), arr("delgram"), arr("gramsum"), arr("gramz"), arr("ZonZ"), arr("ThetPrpA"), sc("Eshow")),
        "e0": lambda: ((K,), arr("s")),
        "cherenkov_threshold_angle": lambda: (arr("AirN"),),
        "tracklen": lambda: (arr("E0"), arr("eCthres"), arr("s")),
        "d_to_det": lambda: (sc("ThetView"), arr("ThetPrpA"), zs.copy()),
        "cher_ang_sig_i": lambda: (arr("taphotstep"), sc("taphotsum"), arr("thetaC"), sc("AveCangI")),
        "cherenkov_area": lambda: (sc("AveCangI"), arr("DistStep"), 0),
        "aerosol_model": lambda: (zs.copy(), arr("ThetPrpA")),
    }
    return zs, table[helper]


def _flat_sv(x):
    if isinstance(x, tuple):
        return [e for y in x for e in _flat_sv(y)]
    if isinstance(x, SymArray):
        return [SV.of(e) for e in x.a.reshape(-1)]
    if isinstance(x, _np.ndarray):
        return [SV.of(e) for e in x.reshape(-1)]
    return [SV.of(x)]


def kernel_history_run(helper, K):
    """The shower kernel is handed to the scheduler as one object that evaluates many showers: a helper must read only
    constants from self.  The REAL helper body (numeric primitives uninterpreted) is called on one object for a shower
    of K+1 segments and then for a shower of K segments; the second result must be what a freshly constructed object
    returns for that shower (same shape, same terms), on every path, and the object's attributes are not rebound."""
    from props import cphot_model as cm

    def run(C):
        C.opaque_math = True
        _sp, _dg, cp = cm.load_cphot()
        Cls = cp["CphotAng"]
        alt = SV.of(_np.float32(525.0))
        used, fresh = Cls(alt), Cls(alt)
        attrs0 = {k: id(v) for k, v in vars(used).items()}
        za, args_a = _helper_args(helper, K + 1, "a")
        zb, args_b = _helper_args(helper, K, "b")
        for zz in (za, zb):
            for e in zz.a:
                C.assume(e.t >= 0, e.t <= 65)
        for n_ in ("Eshowa", "Eshowb"):
            C.assume(z3.Real(n_) > 1)
        getattr(used, helper)(*args_a())
        r2 = _flat_sv(getattr(used, helper)(*args_b()))
        r3 = _flat_sv(getattr(fresh, helper)(*args_b()))
        attrs1 = {k: id(v) for k, v in vars(used).items()}
        same = len(r2) == len(r3)
        claims = {f"CphotAng.{helper}: second shower on a used object has the result shape of a fresh object": z3.BoolVal(same),
                  f"CphotAng.{helper}: the call leaves the object's attributes as they were (no attribute added or rebound)": z3.BoolVal(attrs0 == attrs1)}
        if same:
            claims[f"CphotAng.{helper}: second shower on a used object == the same shower on a fresh object"] = z3.And([a.term() == b.term() for a, b in zip(r2, r3)]) if r2 else z3.BoolVal(True)
        inputs = {f"z{s_}{i}": z3.Real(f"z{s_}{i}") for s_, k_ in (("a", K + 1), ("b", K)) for i in range(k_)}
        return harness.Out(claims=claims, inputs=inputs, skip_defd=lambda tag, where: "numeric domain of the photon-yield helpers is C06 (not applicable); only independence of earlier calls is claimed here")

    return run


def job_kernel_history(helper, K, tier):
    return harness.run_job(f"CphotAng.{helper}: history (K={K})", kernel_history_run(helper, K), timeout_ms=30000, twin=False)


def job_tooframes(N, tier):
    return _job(f"ToOEvent frames (N={N}, astropy modelled)", tooframes_run(N), tier)


def _job(name, run, tier, to=60000):
    return harness.run_job(name, run, timeout_ms=to if tier == "quick" else 300000, prune_timeout_ms=3000)


def job_interp(N, M, tier):
    return _job(f"vec_1d_interp(N={N},M={M})", interp_run(N, M), tier)


def job_sampler(N, M, tier, chunk=None):
    try:
        return _job(f"grid_cdf_sampler(N={N},M={M}" + (f",iterator chunks of {chunk}" if chunk else "") + ")", sampler_run(N, M, chunk), tier)
    finally:
        NP.nditer.chunk = None


def job_taus(N, which, tier):
    return _job(f"Taus.{which}(N={N})", taus_run(N, which), tier)


def job_eas(N, which, tier):
    return _job(f"EAS.{which}(N={N})", eas_run(N, which), tier)


def job_snr(N, tier):
    return _job(f"calculate_snr(N={N})", snr_run(N), tier)


def job_too(N, tier):
    return _job(f"RegionGeomToO.generate_times(N={N})", too_run(N), tier)


def jobs(tier, seed):
    M = 2 if tier == "quick" else 3
    out = [("interp", "job_interp", {"N": 3, "M": M, "tier": tier}), ("sampler", "job_sampler", {"N": 3, "M": 2, "tier": tier}), ("sampler_chunk", "job_sampler", {"N": 3, "M": 2, "tier": tier, "chunk": 2}),
           ("texit", "job_taus", {"N": 2, "which": "exit", "tier": tier}), ("tenergy", "job_taus", {"N": 2, "which": "energy", "tier": tier}),
           ("altdec", "job_eas", {"N": 3, "which": "altDec", "tier": tier}), ("eas", "job_eas", {"N": 3, "which": "call", "tier": tier}),
           ("snr", "job_snr", {"N": 3, "tier": tier}), ("too", "job_too", {"N": 3, "tier": tier}), ("tooframes", "job_tooframes", {"N": 3, "tier": tier})]
    out += [(f"khist_{h}", "job_kernel_history", {"helper": h, "K": 2, "tier": tier}) for h in _KERNEL_HELPERS]
    return out


def _replay_kernel_history(helper, m):
    """the real float32 helper on a used and on a fresh object (for aerosol_model: altitudes from the model)"""
    import warnings

    import numpy as np

    from nuspacesim.simulation.eas_optical.cphotang import CphotAng

    if helper != "aerosol_model":
        return {"reproduced": False, "key": None, "detail": "no concrete replay for this helper"}
    with warnings.catch_warnings():
        warnings.simplefilter("ignore")
        used, fresh = CphotAng(525.0), CphotAng(525.0)
        na = len([k for k in m if k.startswith("za")]) or 3
        nb = len([k for k in m if k.startswith("zb")]) or 2
        cases = [(np.array([m.get(f"za{i}", 5.0 + i) for i in range(na)], dtype=np.float32), np.array([m.get(f"zb{i}", 40.0 + i) for i in range(nb)], dtype=np.float32)),
                 (np.array([3.0, 8.0, 12.0, 35.0], dtype=np.float32), np.array([33.0, 41.0, 50.0], dtype=np.float32))]
        for za, zb in cases:
            tha, thb = np.full(za.shape, 1.2, dtype=np.float32), np.full(zb.shape, 1.2, dtype=np.float32)
            used.aerosol_model(za, tha)
            r2 = np.array(used.aerosol_model(zb, thb))
            r3 = np.array(fresh.aerosol_model(zb, thb))
            if r2.shape != r3.shape or not np.array_equal(r2, r3):
                return {"reproduced": True, "key": "CphotAng.aerosol_model: the result for a shower depends on the showers evaluated before on the same object",
                        "detail": f"after a shower with segment altitudes {za.tolist()} km the transmission for altitudes {zb.tolist()} km differs from a fresh object's in {int((r2 != r3).sum()) if r2.shape == r3.shape else 'shape'} entries"}
    return {"reproduced": False, "key": None, "detail": "real helper: used object == fresh object"}


def replay(v):
    import numpy as np

    job, ob = v.get("job", ""), v["obligation"]
    m = {k: x for k, x in (v.get("model") or {}).items() if x is not None}
    if job.startswith("CphotAng.") and ": history" in job:
        return _replay_kernel_history(job.split(".")[1].split(":")[0], m)
    if job.startswith("RegionGeomToO.generate_times"):
        from astropy.time import Time

        from nuspacesim.simulation.geometry.region_geometry import RegionGeomToO

        g = object.__new__(RegionGeomToO)
        T = m.get("T_obs", 86400.0)
        g.sourceOBSTime = T if T not in (None, 0.0, 1.0) else 86400.0  # a scale factor of 1 hides the in-place scaling
        g.too_source = type("T", (), {"eventtime": Time("2022-06-02T01:00:00", format="isot", scale="utc")})()
        fr = np.array([0.0, 0.25, 0.5])
        keep = fr.copy()
        g.generate_times(fr)
        if not np.array_equal(fr, keep):
            return {"reproduced": True, "key": "generate_times modifies the caller's array", "detail": f"input {keep.tolist()} became {fr.tolist()} (observation time {g.sourceOBSTime} s)"}
        return {"reproduced": False, "key": None, "detail": "input array unchanged"}
    if job.startswith("ToOEvent frames"):
        return _replay_tooframes()
    stage = ob.split("/", 1)[-1].split(":", 1)[0].strip()
    real = _real_stage(stage, big="iterator chunks" in job)
    if real is not None:
        fn, cols = real
        bad = _real_order_check(fn, cols)
        if bad:
            return {"reproduced": True, "key": f"{stage}: {bad[0]}", "detail": bad[1]}
        return {"reproduced": False, "key": None, "detail": "real stage: inputs untouched, permutation / split / repeat invariant on the probe batch"}
    return {"reproduced": False, "key": None, "detail": "no numeric replay for this stage"}


def _replay_tooframes():
    """real astropy: a used ToOEvent object against a fresh one, for reordered / shifted sets of times"""
    import warnings

    import astropy.units as au
    import numpy as np
    from astropy.utils import iers

    from nuspacesim.config import NssConfig
    from nuspacesim.simulation.geometry.too import ToOEvent

    iers.conf.auto_download = False
    warnings.simplefilter("ignore")
    cfg = NssConfig()
    cfg.simulation.mode = "Target"
    used = ToOEvent(cfg)
    base = used.eventtime + np.array([0.0, 3.0, 6.0, 9.0]) * au.hour
    orders = [[0, 1, 2, 3], [3, 2, 1, 0], [1, 2, 3, 0], [0, 2, 1, 3], [0, 1, 2, 3]]
    for k, order in enumerate(orders):
        t = base[order]
        for name in ("localcoords", "get_sun", "get_moon"):
            got = getattr(used, name)(t).alt.rad
            want = getattr(ToOEvent(cfg), name)(t).alt.rad
            if not np.allclose(got, want, rtol=0, atol=1e-12):
                j = int(np.argmax(np.abs(got - want)))
                return {"reproduced": True, "key": f"ToOEvent.{name}: result depends on the calls made before on the same object",
                        "detail": f"call {k + 1} with the times in order {order}: altitude at position {j} is {got[j]!r} rad on the used object, {want[j]!r} rad on a fresh one"}
    return {"reproduced": False, "key": None, "detail": "real astropy: used and fresh objects agree for every order"}


def _real_stage(stage, big=False):
    """-> (callable(cols dict) -> tuple of arrays, probe batch as dict of NumPy arrays) for the REAL stage, or None.
    The probe batches mix every regime of the stage (below / inside / above the table range, zero and non-zero
    entries): a replay only has to exhibit ONE failing batch."""
    import warnings

    import numpy as np

    warnings.simplefilter("ignore")
    rng = np.random.default_rng(11)
    if stage in ("Taus.tau_energy", "Taus.tau_exit_prob", "grid_cdf_sampler"):
        from nuspacesim.config import NssConfig
        from nuspacesim.simulation.taus.taus import Taus

        T = Taus(NssConfig())
        b0, b1 = float(T.tau_cdf_grid["beta_rad"][0]), float(T.tau_cdf_grid["beta_rad"][-1])
        beta = np.array([b0 * 0.3, b0 * 1.5, 0.5 * (b0 + b1), b1 * 1.2, b0 * 0.9, 0.3 * b1, b0 * 0.5, 0.7 * b1])
        logE = np.array([8.0, 8.3, 9.1, 9.5, 10.2, 8.7, 9.9, 10.4])
        if big:  # more events than the iterator's 8192-element buffer: the batch is handed out in several chunks
            nb = 8192 + 72
            beta = np.concatenate([beta, rng.uniform(b0 * 0.5, b1 * 1.1, nb - 8)])
            logE = np.concatenate([logE, rng.uniform(8.0, 10.4, nb - 8)])
        u = rng.uniform(0.05, 0.95, beta.size)
        if stage == "Taus.tau_energy":
            return (lambda c: (T.tau_energy(c["beta"], c["logE"], c["u"]),)), {"beta": beta, "logE": logE, "u": u}
        if stage == "Taus.tau_exit_prob":
            return (lambda c: (T.tau_exit_prob(c["beta"], c["logE"]),)), {"beta": beta, "logE": logE}
        from nuspacesim.utils.cdf import grid_cdf_sampler

        sample = grid_cdf_sampler(T.tau_cdf_grid)
        inb = np.clip(beta, b0, b1)
        return (lambda c: (sample(c["logE"], c["beta"], c["u"]),)), {"logE": logE, "beta": inb, "u": u}
    if stage == "vec_1d_interp":
        from nuspacesim.utils.interp import vec_1d_interp

        ys = np.linspace(0.0, 1.0, 6)
        xs = np.sort(rng.uniform(0, 10, (8, 6)), axis=1)
        x = np.array([0.5 * (r[0] + r[-1]) for r in xs])
        return (lambda c: (vec_1d_interp(c["xs"], ys, c["x"]),)), {"xs": xs, "x": x}
    if stage in ("EAS.altDec", "EAS.__call__"):
        from nuspacesim.config import NssConfig
        from nuspacesim.simulation.eas_optical.eas import EAS

        eas = object.__new__(EAS)
        eas.config = NssConfig()
        n = 8
        if stage == "EAS.altDec":
            cols = {"beta": rng.uniform(0.02, 0.7, n), "tauBeta": np.full(n, 0.9999999), "tauLorentz": 10 ** rng.uniform(5, 8, n), "u": rng.uniform(0.05, 0.95, n)}
            cols["u"][2] = 0.0  # a legal boundary draw
            cols["u"][5] = 0.0
            return (lambda c: tuple(eas.altDec(c["beta"], c["tauBeta"], c["tauLorentz"], c["u"]))), cols

        def kernel(*cs, **kw):  # per-event function of the values in the event's own row, whatever columns are handed over
            # (like the real CphotAng.__call__, which zips its columns: a longer column is silently truncated)
            arrs = [np.asarray(x, dtype=float) for x in list(cs) + list(kw.values()) if isinstance(x, (np.ndarray, list, tuple))]
            fns = [x for x in list(cs) + list(kw.values()) if callable(x)]
            n_ = min(len(x) for x in arrs)
            arrs = [x[:n_] for x in arrs]
            rho, th = 1e3 * np.ones(n_), np.zeros(n_)
            for k_, x in enumerate(arrs):
                rho = rho * (2 + np.cos((k_ + 1) * x))
                th = th + x
            if fns and len(arrs) >= 5:  # the cloud model is evaluated at the event's own (latitude, longitude)
                rho = rho * (2 + np.cos(np.array([float(fns[0](la, lo)) for la, lo in zip(arrs[3], arrs[4])])))
            return rho, 0.5 + 0.4 * np.cos(th) ** 2

        def cloud(lat, lon):  # a location-dependent cloud-top model
            return 5.0 + 3.0 * np.sin(7 * np.asarray(lat)) * np.cos(3 * np.asarray(lon))

        eas.CphotAng = kernel
        cols = {"beta": rng.uniform(0.02, 0.7, n), "altDec": np.array([1.0, 25.0, 3.0, -0.5, 19.0, 7.0, 40.0, 0.2]), "E": 10 ** rng.uniform(-1, 2, n),
                "lat": rng.uniform(-1, 1, n), "lon": rng.uniform(-3, 3, n)}
        return (lambda c: tuple(eas(c["beta"], c["altDec"], c["E"], c["lat"], c["lon"], cloudf=cloud))), cols
    if stage == "calculate_snr":
        from nuspacesim.simulation.eas_radio.radio_antenna import calculate_snr

        return (lambda c: (calculate_snr(c["E"], (30, 80), 525.0, 10, 1.8),)), {"E": 10 ** rng.uniform(-7, -4, (8, 5))}
    return None


def _real_order_check(fn, cols):
    """real arrays through the real stage: (what, detail) for the first broken clause, else None"""
    import itertools as it

    import numpy as np

    def cp(idx=None):
        return {k: (v.copy() if idx is None else v[list(idx)].copy()) for k, v in cols.items()}

    n = len(next(iter(cols.values())))
    same = lambda a, b: np.array_equal(np.asarray(a), np.asarray(b), equal_nan=True)  # noqa
    given = cp()
    base = [np.array(o) for o in fn(given)]
    for k in cols:
        if not same(given[k], cols[k]):
            i = int(np.flatnonzero(~np.isclose(np.asarray(given[k], float).reshape(n, -1), np.asarray(cols[k], float).reshape(n, -1)).all(axis=1))[0])
            return "modifies the caller's input array", f"input column '{k}': event {i} was {cols[k][i]!r}, is {given[k][i]!r} after the call"
    again = [np.array(o) for o in fn(cp())]
    if not all(same(a, b) for a, b in zip(again, base)):
        return "a repeated call with the same inputs gives different results", f"first {base[0][:4]}, second {again[0][:4]}"
    rng = np.random.default_rng(5)
    perms = [list(reversed(range(n))), list(rng.permutation(n)), list(range(1, n)) + [0]]
    for perm in perms:
        out = [np.array(o) for o in fn(cp(perm))]
        for o, b in zip(out, base):
            if not same(o, b[perm]):
                j = int(np.flatnonzero(~(np.isclose(o.reshape(n, -1), b[perm].reshape(n, -1), rtol=0, atol=0, equal_nan=True).all(axis=1)))[0])
                return "results depend on the order of the events", f"permutation {perm[:6]}{'...' if n > 6 else ''} of {n} events: position {j} (event {perm[j]}) gives {o[j]!r}, in the original batch {b[perm][j]!r}"
    for k in (1, n // 2, n - 1):
        o1, o2 = fn(cp(range(0, k))), fn(cp(range(k, n)))
        for a, b2, b in zip(o1, o2, base):
            got = np.concatenate([np.atleast_1d(a), np.atleast_1d(b2)])
            if not same(got, b):
                return "results depend on how the batch is split", f"split at {k} of {n} events: {got[:4]!r}... vs whole batch {b[:4]!r}..."
    return None


MANIFEST_ENTRY = {
    "level_text": "For each vectorised stage the real source is executed symbolically on N=3 (some N=2) symbolic events with symbolic per-event random numbers: all permutations, both split points and a repeated call are compared with the whole-batch result twice -- by identity of the EUF shadow terms (every arithmetic primitive uninterpreted, no constant folding: bit-for-bit agreement under any arithmetic) and by a z3 equality proof over the reals -- on every feasible mask pattern; input arrays carry alias tags so that any in-place operator or indexed store reaching a caller-supplied array is reported.",
    "level_note": "Kernel-history jobs: the real bodies of nine CphotAng helpers (aerosol_model with a symbolic table index included; numeric primitives uninterpreted) are called on one object for two different showers and compared with a fresh object, attributes unchanged (valid_arrays, grammage, ozone_losses, sphoton_yeild, photon_sum and the compiled stepping are not covered by it). The optical stage is called with a location-dependent uninterpreted cloud model and a kernel stub of generic arity that zips its columns like the real kernel; EAS.altDec includes u = 0. np.nditer is a one-chunk stub: batches larger than the 8192-element iterator buffer are NOT covered. Interpolators and CphotAng are stubs (reference interpolation / per-event uninterpreted function). Stages with internal randomness that cannot be attached to events (EASRadio, power-law spectrum) are covered for structure in C20/C12 only.",
    "technique": "symbolic execution of the real NumPy source with EUF shadow terms (term identity) + z3 qfnra-nlsat equality, alias tracking",
}
