"""Shared harness for the diffuse geometry (C01, C02): the real RegionGeom.__init__ and
throw are executed from /repo with every configuration value and the four random
numbers symbolic (N = 1 event per run; the code is elementwise)."""
from __future__ import annotations

from fractions import Fraction as Fr

import z3

from symnp import core, load
from symnp.arr import SymArray
from symnp.core import PI, SV


def load_geom():
    return load.load("nuspacesim.simulation.geometry.region_geometry")


class U4:
    """(4, N) array of random numbers handed to throw(u): shape[0] == 4 and row unpacking."""

    def __init__(self, rows):
        self.rows = rows
        self.shape = (4, len(rows[0]))

    def __iter__(self):
        return iter(self.rows)


def make_config(C, fixed_alt=None, symbolic_det=True):
    h = z3.Real("det_alt")
    if fixed_alt is not None:
        hv = SV(c=Fr(fixed_alt))
    else:
        hv = SV(t=h)
        C.assume(h > 0)
    limb = core.free_angle("limb")
    cher = core.free_angle("max_cher")
    az = z3.Real("max_az")
    C.assume(cher.t > 0, cher.t < PI / 2, az > 0, az <= 2 * PI, limb.t > 0)
    if symbolic_det:
        lat, lon = core.free_angle("detLat"), core.free_angle("detLong")
        C.assume(lat.t >= -PI / 2, lat.t <= PI / 2, lon.t >= -PI, lon.t <= PI)
    else:
        lat, lon = SV(c=Fr(0)), SV(c=Fr(0))
    pos = type("P", (), {"altitude": hv, "latitude": lat, "longitude": lon})()
    det = type("D", (), {"initial_position": pos, "sun_moon": type("SM", (), {"sun_moon_cuts": True})()})()
    sim = type("S", (), {"mode": "Diffuse", "angle_from_limb": limb, "max_cherenkov_angle": cher, "max_azimuth_angle": SV(t=az)})()
    cfg = type("Cfg", (), {"detector": det, "simulation": sim})()
    return cfg, {"det_alt": h, "limb": limb.t, "max_cher": cher.t, "max_az": az, "detLat": SV.of(lat).term() if symbolic_det else None, "detLong": SV.of(lon).term() if symbolic_det else None}


def make_u(C, N=1, closed=True):
    us = [[z3.Real(f"u{k}_{i}") for i in range(N)] for k in range(1, 5)]
    for row in us:
        for x in row:
            C.assume(x >= 0, x <= 1)
    return U4([SymArray([SV(t=x) for x in row], "float") for row in us]), us


def throw_slices(ns):
    """The real source of RegionGeom.throw cut at the path-length sampling: a function
    throw_sliced(self, u) made of the statements of the CURRENT source from `u1, u2, u3, u4 = u`
    up to (not including) `b = (...)`, and from `rvsqrd = ...` to the end (original file name and
    line numbers preserved). `self.losPathLen` must be preset by the harness. The omitted middle
    (cubic root selection) is the subject of its own job."""
    import ast

    from symnp.core import HarnessError

    path = ns["__file__"]
    with open(path) as f:
        tree = ast.parse(f.read(), path)
    fn = None
    for node in ast.walk(tree):
        if isinstance(node, ast.ClassDef) and node.name == "RegionGeom":
            for b in node.body:
                if isinstance(b, ast.FunctionDef) and b.name == "throw":
                    fn = b
    if fn is None:
        raise HarnessError("RegionGeom.throw not found")

    def idx(marker, start=0):
        for k in range(start, len(fn.body)):
            if marker in ast.unparse(fn.body[k]).replace("\n", " "):
                return k
        raise HarnessError(f"throw(): statement {marker!r} not found -- the slicing harness must be revisited")

    i_head = idx("u1, u2, u3, u4 = u")
    i_b = idx("b = ", i_head)
    i_tail = idx("rvsqrd = self.losPathLen * self.losPathLen", i_b)
    new = ast.FunctionDef(name="throw_sliced", args=fn.args, body=fn.body[i_head:i_b] + fn.body[i_tail:], decorator_list=[], returns=None, type_comment=None,
                          lineno=fn.lineno, col_offset=0, end_lineno=fn.end_lineno, end_col_offset=0)
    if hasattr(ast, "TypeAlias"):
        new.type_params = []
    mod = ast.Module(body=[new], type_ignores=[])
    ast.fix_missing_locations(mod)
    loc = {}
    exec(compile(mod, path, "exec"), ns, loc)
    cut = (fn.body[i_b].lineno, fn.body[i_tail].lineno - 1)
    return loc["throw_sliced"], cut
