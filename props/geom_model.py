"""Shared harness for the diffuse geometry (C01, C02): the real RegionGeom.__init__ and
throw are executed from /repo with every configuration value and the four random
numbers symbolic (N = 1 event per run; the code is elementwise)."""
from __future__ import annotations

from fractions import Fraction as Fr

import z3

from symnp import core, load
from symnp.arr import SymArray
from symnp.core import PI, SV


def load_geom():
    return load.load("nuspacesim.simulation.geometry.region_geometry")


class U4:
    """(4, N) array of random numbers handed to throw(u): shape[0] == 4 and row unpacking."""

    def __init__(self, rows):
        self.rows = rows
        self.shape = (4, len(rows[0]))

    def __iter__(self):
        return iter(self.rows)


def make_config(C, fixed_alt=None, symbolic_det=True):
    h = z3.Real("det_alt")
    if fixed_alt is not None:
        hv = SV(c=Fr(fixed_alt))
    else:
        hv = SV(t=h)
        C.assume(h > 0)
    limb = core.free_angle("limb")
    cher = core.free_angle("max_cher")
    az = z3.Real("max_az")
    C.assume(cher.t > 0, cher.t < PI / 2, az > 0, az <= 2 * PI, limb.t > 0)
    if symbolic_det:
        lat, lon = core.free_angle("detLat"), core.free_angle("detLong")
        C.assume(lat.t >= -PI / 2, lat.t <= PI / 2, lon.t >= -PI, lon.t <= PI)
    else:
        lat, lon = SV(c=Fr(0)), SV(c=Fr(0))
    pos = type("P", (), {"altitude": hv, "latitude": lat, "longitude": lon})()
    det = type("D", (), {"initial_position": pos, "sun_moon": type("SM", (), {"sun_moon_cuts": True})()})()
    sim = type("S", (), {"mode": "Diffuse", "angle_from_limb": limb, "max_cherenkov_angle": cher, "max_azimuth_angle": SV(t=az)})()
    cfg = type("Cfg", (), {"detector": det, "simulation": sim})()
    return cfg, {"det_alt": h, "limb": limb.t, "max_cher": cher.t, "max_az": az, "detLat": SV.of(lat).term() if symbolic_det else None, "detLong": SV.of(lon).term() if symbolic_det else None}


def make_u(C, N=1, closed=True):
    us = [[z3.Real(f"u{k}_{i}") for i in range(N)] for k in range(1, 5)]
    for row in us:
        for x in row:
            C.assume(x >= 0, x <= 1)
    return U4([SymArray([SV(t=x) for x in row], "float") for row in us]), us


def throw_slices(ns):
    """The real source of RegionGeom.throw with the path-length sampling cut out: a function
    throw_sliced(self, u) made of the top-level statements of the CURRENT source minus the exclusive backward
    slice of the stores to `self.losPathLen` -- every statement that only serves to compute the path length
    (found by def-use analysis on the AST, not by matching source text, so renaming locals, extracting helpers
    or moving lines does not disturb it).  Original file name and line numbers are preserved.
    `self.losPathLen` must be preset by the harness.  The omitted statements (cubic root selection) are the
    subject of their own job.  -> (function, (first omitted line, last omitted line))"""
    import ast

    from symnp.core import HarnessError

    path = ns["__file__"]
    with open(path) as f:
        tree = ast.parse(f.read(), path)
    fn = None
    for node in ast.walk(tree):
        if isinstance(node, ast.ClassDef) and node.name == "RegionGeom":
            for b in node.body:
                if isinstance(b, ast.FunctionDef) and b.name == "throw":
                    fn = b
    if fn is None:
        raise HarnessError("RegionGeom.throw not found")
    selfname = fn.args.args[0].arg if fn.args.args else "self"
    params = {a.arg for a in fn.args.args}

    def names(stmt):
        """(defined, used) symbols of a top-level statement; attributes of self are 'self.X'"""
        d, u = set(), set()
        for n in ast.walk(stmt):
            if isinstance(n, ast.Name):
                (d if isinstance(n.ctx, (ast.Store, ast.Del)) else u).add(n.id)
            elif isinstance(n, ast.Attribute) and isinstance(n.value, ast.Name) and n.value.id == selfname:
                (d if isinstance(n.ctx, (ast.Store, ast.Del)) else u).add("self." + n.attr)
        # a subscript / augmented store into X also reads X and counts as a definition of X
        for n in ast.walk(stmt):
            tgt = None
            if isinstance(n, ast.Assign):
                tgt = n.targets
            elif isinstance(n, ast.AugAssign):
                tgt = [n.target]
            for t in tgt or []:
                base = t
                while isinstance(base, ast.Subscript):
                    base = base.value
                if base is not t:
                    if isinstance(base, ast.Name):
                        d.add(base.id)
                        u.add(base.id)
                    elif isinstance(base, ast.Attribute) and isinstance(base.value, ast.Name) and base.value.id == selfname:
                        d.add("self." + base.attr)
                        u.add("self." + base.attr)
        return d, u

    body = [b for b in fn.body]
    info = [names(b) for b in body]
    target = "self.losPathLen"
    seeds = [k for k, (d, _u) in enumerate(info) if target in d]
    if not seeds:
        raise HarnessError("throw(): no statement stores self.losPathLen -- the slicing harness must be revisited")
    last = max(seeds)
    sl = set(seeds)
    need = set()
    for k in seeds:
        need |= {x for x in info[k][1] if not x.startswith("self.") and x not in params}
    for k in range(last - 1, -1, -1):
        d, u = info[k]
        if k in sl:
            continue
        if {x for x in d if not x.startswith("self.")} & need and not isinstance(body[k], (ast.Expr,)):
            sl.add(k)
            need |= {x for x in u if not x.startswith("self.") and x not in params}
    # exclusivity: a statement of the slice whose definitions are used outside the slice stays
    changed = True
    while changed:
        changed = False
        for k in sorted(sl):
            if k in seeds:
                continue
            d = info[k][0]
            used_outside = any((info[j][1] & d) for j in range(k + 1, len(body)) if j not in sl)
            defines_attr = any(x.startswith("self.") and x != target for x in d)
            if used_outside or defines_attr:
                sl.discard(k)
                changed = True
    keep = [body[k] for k in range(len(body)) if k not in sl and not (isinstance(body[k], ast.Expr) and isinstance(getattr(body[k], "value", None), ast.Constant))]
    new = ast.FunctionDef(name="throw_sliced", args=fn.args, body=keep, decorator_list=[], returns=None, type_comment=None,
                          lineno=fn.lineno, col_offset=0, end_lineno=fn.end_lineno, end_col_offset=0)
    if hasattr(ast, "TypeAlias"):
        new.type_params = []
    mod = ast.Module(body=[new], type_ignores=[])
    ast.fix_missing_locations(mod)
    loc = {}
    exec(compile(mod, path, "exec"), ns, loc)
    cut = (min(body[k].lineno for k in sl), max(body[k].end_lineno for k in sl))
    loc["throw_sliced"].omitted_lines = sorted((body[k].lineno, body[k].end_lineno) for k in sl)
    loc["throw_sliced"].fn_lines = (fn.lineno, fn.end_lineno)
    return loc["throw_sliced"], cut
