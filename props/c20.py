"""C20 -- radio detection chain scales correctly and respects its validity range (partial)."""
from __future__ import annotations

import os
from fractions import Fraction as Fr

import numpy as _np
import z3

from symnp import core, harness, load
from symnp.arr import SymArray, symarr
from symnp.core import PI, SV
from symnp.shim import NP

ID = "C20"
META = {
    "bounds": {
        "quick": "calculate_snr / voltage_from_field: N=2 events x B frequency bins of symbolic field values for bands (30,80) and (30,300) MHz, symbolic scale factor and antenna counts; EASRadio.__call__: N=2 events, every in/out-of-range pattern, two shower energies related by a symbolic factor, detector below and above 90 km; frequency bins: symbolic integers 0 <= a < b <= 165 against the 165 bin centres of every row of the shipped parameter file",
        "thorough": "N=3 events; additional bands; second solver",
    },
    "outside_bounds": ["the ZHAireS parametrisation values themselves (nearest-neighbour lookup and Gaussian profile are replaced by an uninterpreted function of (zenith, view angle, altitude))", "the ionosphere scaling beyond 'applied only above 90 km, elementwise positive factor'",
                       "noise temperature model: evaluated by real NumPy on the concrete frequency array (a positive constant for the scaling claims)", "IEEE rounding", "bands not aligned to 10 MHz"],
    "stubs": ["RadioEFieldParams -> uninterpreted per-event field rows (one symbol per event and bin, function of that event's inputs)", "IonosphereParams -> uninterpreted positive factor, recording whether it was applied",
              "noise_voltage -> the real function evaluated with real NumPy on the concrete band (float island)", "np.random.uniform -> symbolic draws (shared between the two runs that are compared)"],
    "assumptions": ["REAL mode", "decay altitude and decay length are related as produced upstream (C07): (alt+R)^2 = R^2 + l^2 + 2 R l sin(beta); lenDec > 0; path length > 0; view angle in (0, pi/2)"],
}
LEDGER = {"quick": 730, "thorough": 450}


def _load_antenna(band, h_obs):
    import nuspacesim.simulation.eas_radio.radio_antenna as real

    def noise_voltage(freqs, h):
        fr = _np.asarray(SymArray(freqs), dtype=float)
        return SymArray(real.noise_voltage(fr, float(SV.of(h).c)))

    return load.load("nuspacesim.simulation.eas_radio.radio_antenna", {"noise_voltage": noise_voltage})


def snr_run(N, band):
    def run(C):
        ns = _load_antenna(band, 525.0)
        B = len(range(band[0], band[1], 10))
        E = SymArray(_np.array([[SV(t=z3.Real(f"E{i}_{b}")) for b in range(B)] for i in range(N)], dtype=object).reshape(N, B), "float")
        k, n1, n2 = z3.Real("k"), z3.Real("nants1"), z3.Real("nants2")
        C.assume(n1 >= 1, n2 >= 1)
        gain = Fr(18, 10)
        snr = ns["calculate_snr"](E, band, 525.0, SV(t=n1), gain)
        snr_k = ns["calculate_snr"](E * SV(t=k), band, 525.0, SV(t=n1), gain)
        snr_2 = ns["calculate_snr"](E, band, 525.0, SV(t=n2), gain)
        Ez = SymArray(E.a.copy(), "float")
        for b in range(B):
            Ez.a[0, b] = SV(c=Fr(0))
        snr_z = ns["calculate_snr"](Ez, band, 525.0, SV(t=n1), gain)
        claims = {"one SNR per event": z3.BoolVal(snr.shape == (N,))}
        for i in range(N):
            s, sk, s2 = snr[i].term(), snr_k[i].term(), snr_2[i].term()
            claims[f"[{i}] SNR(k*E) == k*SNR(E)"] = sk == k * s
            claims[f"[{i}] SNR proportional to sqrt(number of antennas): SNR(n1)^2 * n2 == SNR(n2)^2 * n1, same sign"] = z3.And(s * s * n2 == s2 * s2 * n1, s * s2 >= 0)
        claims["zero field gives exactly zero SNR"] = snr_z[0].term() == 0
        if N >= 2:
            claims["SNR of an event does not depend on the other events' fields"] = snr_z[1].term() == snr[1].term()
        # additivity over bins (linearity in the field)
        E2 = SymArray(_np.array([[SV(t=z3.Real(f"F{i}_{b}")) for b in range(B)] for i in range(N)], dtype=object).reshape(N, B), "float")
        snr_f = ns["calculate_snr"](E2, band, 525.0, SV(t=n1), gain)
        snr_sum = ns["calculate_snr"](E + E2, band, 525.0, SV(t=n1), gain)
        for i in range(N):
            claims[f"[{i}] SNR(E+F) == SNR(E) + SNR(F)"] = snr_sum[i].term() == snr[i].term() + snr_f[i].term()
        inputs = {"k": k, "nants1": n1, "nants2": n2}
        return harness.Out(claims=claims, inputs=inputs, observe={"snr": snr})

    return run


def bins_run(band):
    """frequency grids used for the antenna voltage / noise: arange(lo, hi, 10) + 5"""

    def run(C):
        ns = _load_antenna(band, 525.0)
        rec = {}

        def vff(E, freqs, gain):
            rec["freqs"] = freqs
            return SymArray(E)

        ns["voltage_from_field"] = vff
        B = (band[1] - band[0]) // 10
        ns["calculate_snr"](SymArray(_np.array([[SV(c=Fr(1))] * B], dtype=object).reshape(1, B)), band, 525.0, 1, Fr(18, 10))
        fr = [float(x.c) for x in SymArray(rec["freqs"]).a]
        return harness.Out(claims={f"band {band}: voltage/noise bin centres are lo+5, lo+15, ..., hi-5": z3.BoolVal(fr == [band[0] + 5 + 10 * i for i in range(B)])})

    return run


def file_bins_job():
    """For symbolic integers 0 <= a < b <= 165 the file bin centres selected by [10a, 10b] are
    exactly 10a+5, ..., 10b-5 (count b-a, same order) -- one z3 query per row of the file."""
    import astropy.io.misc.hdf5 as hf

    path = os.path.join(load.REPO_SRC, "nuspacesim", "data", "radio_params", "waveform_params.hdf5")
    import hashlib

    with open(path, "rb") as f:
        load.SHA[os.path.relpath(path, load.REPO_SRC)] = hashlib.sha256(f.read()).hexdigest()
    t = hf.read_table_hdf5(path)
    ps = _np.array(t["params"])
    a, b, k = z3.Int("a"), z3.Int("b"), z3.Int("k")
    s = z3.Solver()
    s.set("timeout", 60000)
    verdicts, worst, mdl, nq = [], "unsat", None, 0
    for r in range(ps.shape[0]):
        cs = [z3.RealVal(repr(float(x))) for x in ps[r, :, 0]]
        ck = cs[-1]
        for i in range(len(cs) - 2, -1, -1):
            ck = z3.If(k == i, cs[i], ck)
        n = len(cs)
        selected = z3.And(ck >= 10 * z3.ToReal(a), ck <= 10 * z3.ToReal(b))
        s.push()
        # negation: some bin k is selected although it is not one of a..b-1, or the other way round,
        # or a selected bin's centre is not 10k+5 (which makes the i-th selected centre 10(a+i)+5)
        s.add(a >= 0, a < b, b <= n, k >= 0, k < n)
        s.add(z3.Or(selected != z3.And(k >= a, k < b), z3.And(selected, ck != 10 * z3.ToReal(k) + 5)))
        res = str(s.check())
        nq += 1
        if res != "unsat" and worst == "unsat":
            worst = res
            m = s.model() if res == "sat" else None
            mdl = {"row": r, "a": str(m[a]) if m else None, "b": str(m[b]) if m else None, "k": str(m[k]) if m else None}
        s.pop()
    v = {"obligation": f"parameter file: for all 0<=a<b<=165 the bins with centre in [10a,10b] are exactly bins a..b-1 with centres 10k+5 == arange(10a,10b,10)+5 [{nq} row queries]",
         "verdict": worst, "time_s": 0.0, "kind": "claim"}
    if mdl:
        v["model"] = mdl
    verdicts.append(v)
    s.push()
    s.add(k >= 0, k < 165, z3.BoolVal(ps.shape[1] == 165))
    verdicts.append({"obligation": "parameter file: witness (165 bins present)", "verdict": "sat" if str(s.check()) == "sat" else "unsat", "time_s": 0.0, "kind": "twin"})
    s.pop()
    return {"verdicts": verdicts, "queries": nq, "paths": ps.shape[0]}


def eas_radio_run(N, det_alt):
    def run(C):
        applied = {"iono": 0}

        class Params:
            def __init__(self, fr):
                self.fr = fr

            def __call__(self, zenith, view, h):
                applied.setdefault("params_args", []).append((SymArray(zenith), SymArray(view), SymArray(h)))
                n = len(SymArray(h))
                out = _np.empty((n, 2), dtype=object)
                for i in range(n):
                    for b in range(2):
                        out[i, b] = core._opaque(f"efield_bin{b}", SymArray(zenith).a[i], SymArray(view).a[i], SymArray(h).a[i])
                return SymArray(out, "float")

        class Iono:
            def __init__(self, fr, err, tec):
                pass

            def __call__(self, E):
                applied["iono"] += 1
                f = SV(t=z3.Real("iono_factor"))
                return f

        import nuspacesim.simulation.eas_optical.detector_geometry as rdg

        sp = load.load("nuspacesim.simulation.eas_optical.shower_properties")
        dg = load.load("nuspacesim.simulation.eas_optical.detector_geometry", {"propagation_angle": sp["propagation_angle"]})
        ns = load.load("nuspacesim.simulation.eas_radio.radio", {"RadioEFieldParams": Params, "IonosphereParams": Iono, "distance_to_detector": dg["distance_to_detector"]})
        C.assume(z3.Real("iono_factor") > 0)
        Re = SV.of(ns["R_earth"].to(ns["km"]).value)
        cfg = type("Cfg", (), {
            "detector": type("D", (), {"radio": type("R", (), {"low_frequency": 30.0, "high_frequency": 300.0})(), "initial_position": type("P", (), {"altitude": SV(c=Fr(det_alt))})()})(),
            "simulation": type("S", (), {"ionosphere": type("I", (), {"total_electron_content": 10.0, "total_electron_error": 0.1})()})()})()
        er = ns["EASRadio"](cfg)
        idx = list(range(N))
        beta = SymArray([core.free_angle(f"beta{i}") for i in idx])
        theta = SymArray([core.free_angle(f"theta{i}") for i in idx])
        alt, ln, pl, E = (symarr([f"{n}{i}" for i in idx]) for n in ("altDec", "lenDec", "pathLen", "E"))
        k = z3.Real("k")
        for i in idx:
            b, th = z3.Real(f"beta{i}"), z3.Real(f"theta{i}")
            a, l, L = z3.Real(f"altDec{i}"), z3.Real(f"lenDec{i}"), z3.Real(f"pathLen{i}")
            sb, _cb = core.sincos(beta[i])
            C.assume(b >= 0, b <= 42 * PI / 180, th > 0, th < PI / 2, l > 0, L > 0, z3.Real(f"E{i}") > 0,
                     (a + Re.term()) * (a + Re.term()) == Re.term() * Re.term() + l * l + 2 * Re.term() * l * sb, a + Re.term() > 0)
        nd0 = C.ndraw
        F1 = er(beta, alt, ln, theta, pl, E)
        draws = [t for (_i, _w, t) in C.draws[nd0:]]
        from props.c04 import fixed_draws

        # second run: energies scaled by k, same random numbers
        it = iter(draws)

        def uni(low=0.0, high=1.0, size=None):
            n = size[0] if isinstance(size, (tuple, list)) else int(size)
            return SymArray([SV(t=next(it)) for _ in range(n)], "float")

        old = NP.random.uniform
        NP.random.uniform = uni
        try:
            F2 = er(beta, alt, ln, theta, pl, E * SV(t=k))
        finally:
            NP.random.uniform = old
        claims = {"one field row per event": z3.BoolVal(F1.shape[0] == N)}
        for i in idx:
            a = z3.Real(f"altDec{i}")
            inr = z3.And(a >= 0, a <= 10)
            row1, row2 = F1.a[i], F2.a[i]
            claims[f"[{i}] decay outside [0,10] km gives exactly zero field in every bin"] = z3.Implies(z3.Not(inr), z3.And(*[x.term() == 0 for x in row1]))
            claims[f"[{i}] field linear in shower energy: F(k*E) == k*F(E) in every bin"] = z3.And(*[y.term() == k * x.term() for x, y in zip(row1, row2)])
        # independence between events, syntactically: the field row of event i mentions no input of another event
        from symnp import solve as _solve

        for i in idx:
            foreign = {f"{n}{j}" for j in idx if j != i for n in ("beta", "theta", "altDec", "lenDec", "pathLen", "E")}
            used = set()
            for x in F1.a[i]:
                used |= _solve.vars_of(SV.of(x).term())
            claims[f"[{i}] the field row of an event depends on no other event's energy, angles, altitude or path lengths"] = z3.BoolVal(not (used & foreign))
        # alignment of what the parametrisation is asked: zenith, view angle and altitude of row i are event i's own
        zen_a, view_a, h_a = applied["params_args"][0]
        for i in idx:
            own_view = NP.rad2deg(er.get_decay_view(theta[i:i + 1], pl[i:i + 1], ln[i:i + 1]))
            a = z3.Real(f"altDec{i}")
            claims[f"[{i}] the parametrisation is asked with this event's own view angle (in range) / 0 (outside), zenith and altitude"] = z3.And(
                z3.If(z3.And(a >= 0, a <= 10), SV.of(view_a[i]).term() == SV.of(own_view[0]).term(), SV.of(view_a[i]).term() == 0),
                SV.of(h_a[i]).term() == a, SV.of(zen_a[i]).term() == SV.of(NP.degrees(core.pi_sv() / 2.0 - beta[i])).term())
        claims[f"ionosphere scaling applied iff the detector is above 90 km (detector at {det_alt} km)"] = z3.BoolVal((applied["iono"] > 0) == (det_alt > 90) or N == 0)
        inputs = {"k": k}
        for i in idx:
            for n in ("beta", "theta", "altDec", "lenDec", "pathLen", "E"):
                inputs[f"{n}{i}"] = z3.Real(f"{n}{i}")
        return harness.Out(claims=claims, inputs=inputs)

    return run


def job_snr(N, band, tier):
    return harness.run_job(f"calculate_snr(N={N},band={tuple(band)})", snr_run(N, tuple(band)), timeout_ms=60000 if tier == "quick" else 600000, second=(tier == "thorough"))


def job_bins(tier):
    def f():
        vs = []
        for band in ((30, 80), (30, 300), (300, 1000), (200, 1200), (0, 1650)):
            r = harness.run_job(f"bins{band}", bins_run(band), timeout_ms=10000, twin=False)
            if r.get("error"):
                raise core.HarnessError(r["error"])
            vs += r["verdicts"]
        return {"verdicts": vs, "paths": 5}

    return harness.plain_job("calculate_snr frequency grid", f)


def job_file_bins(tier):
    return harness.plain_job("waveform_params.hdf5 frequency bins", file_bins_job)


def _radio_sampler(N):
    import math

    def s(rng):
        v = {"k": float(rng.uniform(0.5, 3)), "iono_factor": float(rng.uniform(0.1, 1))}
        Re = 6378.1
        for i in range(N):
            b = float(rng.uniform(0.01, 0.7))
            l = float(10 ** rng.uniform(0, 2.7))
            v[f"beta{i}"], v[f"lenDec{i}"] = b, l
            v[f"altDec{i}"] = math.sqrt(Re * Re + l * l + 2 * Re * l * math.sin(b)) - Re
            v[f"theta{i}"] = float(rng.uniform(0.2, 1.4))
            v[f"pathLen{i}"] = float(rng.uniform(500, 3000))
            v[f"E{i}"] = float(rng.uniform(0.1, 5))
        for d in range(1, 4 * N + 2):
            v[f"draw{d}"] = float(rng.uniform(-0.5, 0.5)) if d % 2 else float(rng.uniform(-6.2, 0))
        return v

    return s


def job_eas_radio(N, det_alt, tier):
    return harness.run_job(f"EASRadio.__call__(N={N},detector {det_alt} km)", eas_radio_run(N, det_alt), timeout_ms=240000 if tier == "quick" else 600000, second=(tier == "thorough"),
                           prune_timeout_ms=5000, witness=(_radio_sampler(N), 80))


def jobs(tier, seed):
    N = 2 if tier == "quick" else 3
    out = [("snr1", "job_snr", {"N": N, "band": [30, 80], "tier": tier}), ("snr2", "job_snr", {"N": 1, "band": [30, 300], "tier": tier}),
           ("bins", "job_bins", {"tier": tier}), ("filebins", "job_file_bins", {"tier": tier}),
           ("er525", "job_eas_radio", {"N": N, "det_alt": 525, "tier": tier}), ("er33", "job_eas_radio", {"N": 1, "det_alt": 33, "tier": tier})]
    if tier == "quick":  # (an out-of-range event in front of two in-range ones needs three events; the thorough tier has N = 3 throughout)
        out.append(("er525x3", "job_eas_radio", {"N": 3, "det_alt": 525, "tier": tier}))
    return out


def _real_snr(E, band, nants):
    import numpy as np

    from nuspacesim.simulation.eas_radio.radio_antenna import calculate_snr

    return calculate_snr(np.asarray(E, dtype=float), band, 525.0, nants, 1.8)


def replay(v):
    import numpy as np

    job, ob = v.get("job", ""), v["obligation"]
    m = {k: x for k, x in (v.get("model") or {}).items() if x is not None}
    if job.startswith("calculate_snr(N="):
        band = (30, 80) if "(30, 80)" in job else (30, 300)
        B = (band[1] - band[0]) // 10
        rng = np.random.default_rng(5)
        E = rng.uniform(1e-6, 1e-4, (2, B))
        F = rng.uniform(1e-6, 1e-4, (2, B))
        k, n1, n2 = m.get("k", 3.0), max(1.0, m.get("nants1", 4.0)), max(1.0, m.get("nants2", 9.0))
        s, sk, s2 = _real_snr(E, band, n1), _real_snr(k * E, band, n1), _real_snr(E, band, n2)
        bad = None
        if "k*SNR" in ob and not np.allclose(sk, k * s, rtol=1e-9):
            bad = f"SNR(k*E)={sk.tolist()} vs k*SNR(E)={(k*s).tolist()}"
        if "sqrt(number of antennas)" in ob and not np.allclose(s * s * n2, s2 * s2 * n1, rtol=1e-9):
            bad = f"SNR(n1)^2*n2={(s*s*n2).tolist()} vs SNR(n2)^2*n1={(s2*s2*n1).tolist()}"
        if "SNR(E+F)" in ob and not np.allclose(_real_snr(E + F, band, n1), s + _real_snr(F, band, n1), rtol=1e-9):
            bad = "SNR not additive in the field"
        Ez = E.copy()
        Ez[0] = 0
        sz = _real_snr(Ez, band, n1)
        if "zero field" in ob and sz[0] != 0:
            bad = f"zero field gives SNR {sz[0]}"
        if "other events" in ob and sz[1] != s[1]:
            bad = "SNR of event 1 changed when event 0's field changed"
        if bad:
            return {"reproduced": True, "key": "calculate_snr: " + ob.split("] ")[-1][:60], "detail": bad}
        return {"reproduced": False, "key": None, "detail": "real code satisfies the scaling law"}
    if job.startswith("EASRadio.__call__"):
        from nuspacesim.config import NssConfig
        from nuspacesim.simulation.eas_radio.radio import EASRadio

        cfg = NssConfig()
        cfg.detector.initial_position.altitude = 525.0 if "525" in job else 33.0
        er = EASRadio(cfg)
        if "parametrisation is asked" in ob:
            # spy on the real parametrisation: the view angle it is asked for must be the event's own (batch with out-of-range
            # events in front of, between and behind in-range ones)
            import nuspacesim.simulation.eas_radio.radio as rmod

            seen = {}
            orig = rmod.RadioEFieldParams.__call__

            def spy(self_, zenith, view, h):
                seen["args"] = (np.array(zenith), np.array(view), np.array(h))
                return orig(self_, zenith, view, h)

            rmod.RadioEFieldParams.__call__ = spy
            try:
                beta = np.array([0.1, 0.2, 0.15, 0.3, 0.25, 0.12])
                ln = np.array([900.0, 30.0, 40.0, 2000.0, 25.0, 35.0])
                Re = 6378.1
                alt = np.sqrt(Re**2 + ln**2 + 2 * Re * ln * np.sin(beta)) - Re
                th, pl, E = np.array([0.9, 1.0, 0.8, 0.7, 1.1, 0.95]), np.array([2000.0, 2100.0, 2200.0, 2300.0, 2150.0, 2050.0]), np.ones(6)
                with np.errstate(all="ignore"):
                    np.random.seed(4)
                    er(beta, alt, ln, th, pl, E)
                    inr = (alt >= 0) & (alt <= 10)
                    want = np.where(inr, np.rad2deg(er.get_decay_view(th, pl, ln)), 0.0)
            finally:
                rmod.RadioEFieldParams.__call__ = orig
            zen, view, h = seen["args"]
            if view.shape != want.shape or not np.allclose(view, want, rtol=1e-12, atol=1e-12) or not np.array_equal(h, alt) or not np.allclose(zen, np.degrees(np.pi / 2 - beta)):
                k = int(np.argmax(np.abs(view - want))) if view.shape == want.shape else 0
                return {"reproduced": True, "key": "EASRadio: the parametrisation is not asked with each event's own view angle",
                        "detail": f"decay altitudes {np.round(alt, 2).tolist()} km (in range: {inr.tolist()}): view angles passed {np.round(view, 4).tolist()} deg, each event's own {np.round(want, 4).tolist()} deg (event {k})"}
            return {"reproduced": False, "key": None, "detail": "real code: view angle, zenith and altitude of every row are the event's own"}
        N = int(job.split("N=")[1].split(",")[0])
        Re = 6378.1
        k = m.get("k", 3.0)
        bad = None
        # the model's events first (decay altitude as the solver chose it), then a fixed ordinary batch
        batches = []
        if any(f"altDec{i}" in m for i in range(N)):
            g = lambda n, d: np.array([float(m.get(f"{n}{i}", d)) for i in range(N)])  # noqa
            batches.append((g("beta", 0.1), g("altDec", 5.0), g("lenDec", 30.0), g("theta", 0.9), g("pathLen", 2000.0), g("E", 1.0)))
        b0, l0 = np.array([0.1, 0.2]), np.array([30.0, 400.0])
        batches.append((b0, np.sqrt(Re**2 + l0**2 + 2 * Re * l0 * np.sin(b0)) - Re, l0, np.array([0.9, 1.0]), np.array([2000.0, 2100.0]), np.array([0.5, 2.0])))
        b1, l1 = np.array([0.1, 0.2, 0.15, 0.3, 0.12]), np.array([400.0, 30.0, 40.0, 900.0, 35.0])  # out-of-range decays in front of and between in-range ones
        batches.append((b1, np.sqrt(Re**2 + l1**2 + 2 * Re * l1 * np.sin(b1)) - Re, l1, np.array([0.010, 0.020, 0.015, 0.020, 0.012]), np.array([2000.0, 2100.0, 2200.0, 2300.0, 2050.0]), np.array([0.5, 2.0, 1.0, 3.0, 0.25])))  # (view angles inside the Cherenkov cone: non-zero fields)
        for beta, alt, ln, th, pl, E in batches:
            k = np.array([m.get("k", 2.0), 3.0, 5.0, 7.0, 11.0])[:len(E)]  # per-event factors
            with np.errstate(all="ignore"):
                np.random.seed(4)
                F1 = er(beta, alt, ln, th, pl, E)
                np.random.seed(4)
                F2 = er(beta, alt, ln, th, pl, k * E)
            k = k[:, None]
            out = (alt < 0) | (alt > 10)
            if not np.all(np.isfinite(F1)):
                bad = f"non-finite field for events with decay altitudes {alt.tolist()} km, emergence {beta.tolist()} rad (detector at {cfg.detector.initial_position.altitude} km): {F1[~np.isfinite(F1).all(axis=1)][0][:3].tolist()}..."
            elif np.any(F1[out] != 0):
                bad = f"non-zero field for a decay at {alt[out].tolist()} km"
            elif ("linear in shower energy" in ob or "depends on no other event" in ob) and not np.allclose(F2, k * F1, rtol=1e-9, atol=0):
                bad = f"field is not linear in the event's own shower energy (energies scaled by per-event factors {k.ravel().tolist()}, decay altitudes {np.round(alt, 2).tolist()} km)"
            if bad:
                break
        if bad:
            return {"reproduced": True, "key": "EASRadio: " + bad.split(" for ")[0][:60], "detail": bad}
    if job == VALIDATE_JOB:
        bad = _band_sequence_probe()
        if bad:
            return {"reproduced": True, "key": "RadioEFieldParams: field bins depend on the bands evaluated before", "detail": bad[0][1]}
        return {"reproduced": False, "key": None, "detail": "band sequence probe passes"}
    if job.startswith("waveform_params"):
        return {"reproduced": True, "key": "radio parameter file bins misaligned", "detail": str(m)}
    return {"reproduced": False, "key": None, "detail": "no reproduction"}


def validate(seed, tier):
    import numpy as np

    band, N = (30, 80), 2
    B = 5

    def sampler(rng):
        v = {"k": 2.0, "nants1": float(rng.integers(1, 20)), "nants2": 3.0}
        for i in range(N):
            for b in range(B):
                v[f"E{i}_{b}"] = float(rng.uniform(1e-6, 1e-3))
                v[f"F{i}_{b}"] = float(rng.uniform(1e-6, 1e-3))
        return v

    def real(v):
        E = [[v[f"E{i}_{b}"] for b in range(B)] for i in range(N)]
        return {"snr": _real_snr(E, band, v["nants1"])}

    n_ok = harness.validate(snr_run(N, band), sampler, real, 40, seed, rel=1e-8)
    fails = [{"obligation": ob_, "verdict": "sat", "kind": "claim", "time_s": 0.0, "model": {}, "detail": det,
              "reason": "assumption of the symbolic jobs about the stubbed parametrisation (a function of band and event only) is false on the real class (concrete probe)"}
             for ob_, det in _band_sequence_probe()]
    if isinstance(n_ok, tuple):
        return n_ok[0], list(n_ok[1]) + fails
    return (n_ok, fails) if fails else n_ok


VALIDATE_JOB = "RadioEFieldParams (band sequence probe)"
BAND_OB = "field bins of a band do not depend on which bands were evaluated before in the same process (count and centres == arange(lo, hi, 10) + 5)"


def _band_sequence_probe():
    """The EASRadio job replaces RadioEFieldParams by a per-band uninterpreted function and the bin job reads
    the parameter file directly; both assume that the real class selects its bins from ITS OWN band.  Probe:
    several bands one after the other in one process, each compared with the selection computed from the file."""
    import warnings

    import numpy as np

    from nuspacesim.simulation.eas_radio.radio import RadioEFieldParams

    warnings.simplefilter("ignore")
    zen, view, h = np.array([60.0, 75.0, 85.0]), np.array([0.5, 1.0, 1.5]), np.array([0.0, 2.0, 4.0])
    bad = []
    for lo, hi in ((30, 300), (100, 370), (300, 1000), (30, 80), (30, 300)):
        rp = RadioEFieldParams((lo, hi))
        try:
            F = np.asarray(rp(zen, view, h))
        except Exception as ex:  # noqa
            bad.append((BAND_OB, f"band {lo}-{hi} MHz after earlier bands: {type(ex).__name__}: {ex}"))
            break
        want = (hi - lo) // 10
        if F.shape != (3, want):
            bad.append((BAND_OB, f"band {lo}-{hi} MHz evaluated after other bands returns {F.shape[1]} bins per event, the voltage/noise grid has {want}"))
            break
        # the same band through a freshly loaded copy of the module (no history)
        import importlib
        import sys

        mod = sys.modules["nuspacesim.simulation.eas_radio.radio"]
        spec = importlib.util.spec_from_file_location("_c20_fresh_radio", mod.__file__, submodule_search_locations=None)
        fresh = importlib.util.module_from_spec(spec)
        fresh.__package__ = mod.__package__
        spec.loader.exec_module(fresh)
        F0 = np.asarray(fresh.RadioEFieldParams((lo, hi))(zen, view, h))
        if F0.shape != F.shape or not np.array_equal(F0, F, equal_nan=True):
            bad.append((BAND_OB, f"band {lo}-{hi} MHz evaluated after other bands gives {F[0, :3].tolist()}..., a fresh process gives {F0[0, :3].tolist()}... for the same events"))
            break
        cents = rp.ps[0][:, 0]
        if int(np.isin(cents, np.arange(lo, hi, 10) + 5.0).sum()) != want:
            bad.append((BAND_OB, f"parameter file has no {want} bins at the centres of band {lo}-{hi}"))
    return bad


MANIFEST_ENTRY = {
    "level_text": "Partial claim. The real calculate_snr / voltage_from_field are executed symbolically on symbolic field arrays (N<=2 events x 5 or 27 bins, symbolic scale factor and antenna counts): nlsat proves SNR(kE) = k SNR(E), additivity in the field, SNR^2 proportional to the antenna count, exact zero for zero field, independence between events, and the 10-MHz bin grid of the voltage/noise arrays; the real EASRadio.__call__ (parametrisation and ionosphere tables uninterpreted) is executed for every in/out-of-range pattern: exactly zero rows outside [0,10] km, linearity in shower energy under a shared random sequence, ionosphere scaling only above 90 km, definedness of every division/arcsin/arccos given the upstream geometric relation; the bin centres of every row of the shipped parameter file are proved (z3, symbolic integers a<b) to coincide with arange(10a,10b,10)+5.",
    "level_note": "Independence between events of EASRadio.__call__ is additionally claimed syntactically (the field row of an event mentions no other event's inputs) and replayed with per-event energy factors on a batch with out-of-range events in front of and between in-range ones. The arguments handed to the (uninterpreted) parametrisation are claimed to be each event's own zenith, view angle and altitude (N=3: an out-of-range event in front of two in-range ones); replayed with a spy on the real RadioEFieldParams. That the real RadioEFieldParams selects its bins from its own band whatever was evaluated before is probed at every run (five bands in sequence against a freshly loaded module; sampling, not solving). REAL arithmetic. NOT covered: the ZHAireS parametrisation values and nearest-neighbour lookup (uninterpreted), the noise temperature model (evaluated concretely by real NumPy), ionosphere fit values.",
    "technique": "symbolic execution of the real NumPy source + z3 qfnra-nlsat; z3 LIA query over the shipped bin centres",
}
