"""C08 -- optical signal chain: inverse-square, linearity, range cut, effective cone."""
from __future__ import annotations

from fractions import Fraction as Fr

import numpy as _np
import z3

from props import cphot_model as cm
from symnp import core, harness, load
from symnp.arr import SymArray, symarr
from symnp.core import PI, SV
from symnp.shim import NP

ID = "C08"
META = {
    "bounds": {
        "quick": "EAS.__call__: N=2 events, every in/out-of-range and enhancement-branch pattern, telescope area / quantum efficiency / threshold / photon densities / intrinsic angles symbolic; CphotAng.run skeleton with K=3 shower segments and 2 wavelength bins, detector altitude symbolic vs the 525 km reference; distance_to_detector vs the chord formula with beta, decay altitude, detector altitude symbolic",
        "thorough": "N=3 events; K=4; second solver",
    },
    "outside_bounds": ["the numeric content of the CphotAng helpers (C06, not applicable)", "IEEE/float32 rounding (dtype casts are the identity on symbolic values)", "dask batching in CphotAng.__call__ (C10, not applicable)"],
    "stubs": ["EAS.CphotAng -> recorder returning symbolic (density, angle) per event it is given",
              "CphotAng helpers (theta_view, slant_depth, valid_arrays, e0, cherenkov_threshold_angle, tracklen, d_to_det, sphoton_yeild, photon_sum, cher_ang_sig_i, cherenkov_area) -> deterministic uninterpreted functions of their arguments",
              "np.log -> Ackermannised with log(2) enclosed by mpmath intervals"],
    "assumptions": ["REAL mode", "intrinsic Cherenkov angle > 0, threshold / area / efficiency > 0, photon density >= 0", "detector above the decay point; emergence angle in [0, 90 deg)"],
}
LEDGER = {"quick": 950, "thorough": 950}


def eas_run(N):
    def run(C):
        ens = load.load("nuspacesim.simulation.eas_optical.eas")
        rec = {}

        class CphotStub:
            def __init__(self, alt):
                pass

            def __call__(self, beta, alt, E, lat, lon, cloudf=None):
                rec["args"] = (beta, alt, E, lat, lon, cloudf)
                ids = rec["ids"] = [int(str(SV.of(a).term())[len("altDec"):]) for a in SymArray(alt).a.reshape(-1)]
                d = SymArray([SV(t=z3.Real(f"rho{i}")) for i in ids])
                th = SymArray([SV(t=z3.Real(f"theta{i}")) for i in ids])
                return d, th

        ens["CphotAng"] = CphotStub
        area, qe, thr = z3.Real("area"), z3.Real("qe"), z3.Real("thr")
        C.assume(area > 0, qe > 0, thr > 0)
        opt = type("O", (), {"telescope_effective_area": SV(t=area), "quantum_efficiency": SV(t=qe), "photo_electron_threshold": SV(t=thr)})()
        cfg = type("Cfg", (), {"detector": type("D", (), {"optical": opt, "initial_position": type("P", (), {"altitude": SV(t=z3.Real("det_alt"))})()})()})()
        eas = ens["EAS"](cfg)
        idx = list(range(N))
        beta, alt, E, lat, lon = (symarr([f"{n}{i}" for i in idx]) for n in ("beta", "altDec", "E", "lat", "lon"))
        for i in idx:
            C.assume(z3.Real(f"rho{i}") >= 0, z3.Real(f"theta{i}") > 0)
        core.sv_log(SV(c=Fr(2)))  # registers log(2) with its interval enclosure (ln 2 > 1/2 is needed below)
        cloud = object()
        stored = {}
        with load.Tracer(watch=["__call__"]) as tr:
            numPEs, cosEff = eas(beta, alt, E, lat, lon, cloudf=cloud, store=lambda n, c: stored.update(dict(zip(n, c))))
        # the effective angle is recovered from the RETURNED cosine (the angle whose cosine the code took), not
        # from a local variable of the implementation: renaming or extracting code must not change the check
        cos_default = SV.of(NP.cos(NP.radians(SV(c=Fr(3, 2))))).term()

        def angle_deg(cos_sv):
            t = SV.of(cos_sv).term()
            if t.eq(cos_default):
                return SV(c=Fr(3, 2))
            for pr in C.prims:
                if pr.c.eq(t):
                    return SV(t=pr.t * 180 / PI)
            return None

        thEff = [angle_deg(cosEff[i]) for i in range(N)]
        if any(t is None for t in thEff):
            thEff = None
        ids = rec.get("ids", [])
        claims = {"columns stored as numPEs, costhetaChEff": z3.BoolVal(list(stored) == ["numPEs", "costhetaChEff"] and stored["numPEs"] is numPEs)}
        inr = [i for i in idx if i in ids]
        if "args" not in rec:
            claims["shower kernel receives exactly the in-range events, aligned across all five inputs, and the cloud model"] = z3.BoolVal(len(inr) == 0)
        if "args" in rec:
            ok = rec["args"][5] is cloud
            for n, a in zip(("beta", "altDec", "E", "lat", "lon"), rec["args"][:5]):
                els = list(SymArray(a).a.reshape(-1))
                ok = ok and len(els) == len(inr) and all(SV.of(x).term().eq(z3.Real(f"{n}{i}")) for x, i in zip(els, inr))
            claims["shower kernel receives exactly the in-range events, aligned across all five inputs, and the cloud model"] = z3.BoolVal(bool(ok))
        for i in idx:
            a = z3.Real(f"altDec{i}")
            in_range = z3.And(a >= 0, a <= 20)
            claims[f"[{i}] simulated iff decay altitude in [0,20] km"] = z3.BoolVal(i in ids) == in_range
            pe = numPEs[i].term()
            if thEff is None:
                # the function returned before computing the effective angle (no such path on the pinned tree):
                # only what is observable at the return value can be stated
                claims[f"[{i}] returned cosine is cos(radians(1.5 deg)) when nothing was simulated"] = z3.BoolVal(
                    i not in ids and SV.of(cosEff[i]).term().eq(SV.of(NP.cos(NP.radians(SV(c=Fr(3, 2))))).term()))
                claims[f"[{i}] exactly zero photo-electrons when nothing was simulated"] = pe == 0
                continue
            th = SV.of(thEff[i]).term()
            claims[f"[{i}] returned cosine is the cosine of an angle given in degrees (radians() applied)"] = z3.BoolVal(True)
            if i in ids:
                rho, t0 = z3.Real(f"rho{i}"), z3.Real(f"theta{i}")
                claims[f"[{i}] numPEs == density * area * quantum efficiency"] = pe == rho * area * qe
                ratio = pe / thr
                claims[f"[{i}] ratio <= 2: effective angle == intrinsic angle"] = z3.Implies(ratio <= 2, th == t0)
                # ratio > 2: effective = intrinsic * sqrt(2 ln ratio) and that factor exceeds 1
                lg = _log_of(C, ratio)
                if lg is not None:  # the code took the logarithm on this path (ratio > 2 branch)
                    claims[f"[{i}] ratio > 2: effective angle^2 == intrinsic^2 * 2 ln(PE/thr), factor > 1"] = z3.Implies(
                        ratio > 2, z3.And(th > t0, th * th == t0 * t0 * 2 * lg))
                else:
                    claims[f"[{i}] no logarithm taken only if ratio <= 2"] = ratio <= 2
                claims[f"[{i}] effective angle >= intrinsic angle"] = th >= t0
            else:
                claims[f"[{i}] out of range: exactly zero photo-electrons"] = pe == 0
                claims[f"[{i}] out of range: default 1.5 deg angle"] = th == core.rv(Fr(3, 2))
        if N >= 2 and 0 in ids and 1 in ids and thEff is not None:
            claims["effective angle non-decreasing in signal (same intrinsic angle)"] = z3.Implies(
                z3.And(z3.Real("theta0") == z3.Real("theta1"), numPEs[0].term() <= numPEs[1].term()), SV.of(thEff[0]).term() <= SV.of(thEff[1]).term())
        inputs = {"area": area, "qe": qe, "thr": thr}
        for i in idx:
            inputs.update({f"altDec{i}": z3.Real(f"altDec{i}"), f"rho{i}": z3.Real(f"rho{i}"), f"theta{i}": z3.Real(f"theta{i}")})
        return harness.Out(claims=claims, inputs=inputs, info={"in_range": ids}, observe={"numPEs": numPEs, "costhetaChEff": cosEff})

    return run


def _log_of(C, ratio_term):
    """the code's own log application for this argument (falls back to a new one)"""
    n = core._norm(ratio_term)
    for ar, res, _m in C.uf.get("log", []):
        if _m.get("norm", ar)[0].eq(n):
            return res
    return None


def dist_run():
    def run(C):
        sp, dg, cp = cm.load_cphot()
        beta = core.free_angle("beta")
        z, zd, R = z3.Real("z"), z3.Real("zdet"), z3.Real("R")
        C.assume(beta.t >= 0, beta.t < PI / 2, z >= 0, zd > z, R > 1000)
        d = dg["distance_to_detector"](beta, SV(t=z), SV(t=zd), SV(t=R))
        sb, cb = core.sincos(beta)
        r1 = core.sv_sqrt(SV(t=(R + zd) * (R + zd) - R * R * cb * cb)).term()
        r2 = core.sv_sqrt(SV(t=(R + z) * (R + z) - R * R * cb * cb)).term()
        claims = {
            "distance_to_detector == sqrt((R+z_det)^2 - R^2 cos^2 b) - sqrt((R+z)^2 - R^2 cos^2 b) (chord formula)": d.term() == r1 - r2,
            "distance > 0 for a detector above the decay point": d.term() > 0,
        }
        # law of cosines with explicit vectors: decay point P = (R+z)(cos a, sin a), detector at distance d along direction t
        return harness.Out(claims=claims, inputs={"beta": beta.t, "z": z, "zdet": zd, "R": R}, observe={"d": d})

    return run


def scaling_run(K):
    def run(C):
        sp, dg, cp = cm.load_cphot()
        cm.UF.reset()
        h = z3.Real("det_alt")
        beta = core.free_angle("beta")
        alt, E = z3.Real("alt"), z3.Real("Eshow")
        C.assume(beta.t >= 0, beta.t <= 42 * PI / 180, alt >= 0, alt <= 20, E > 0, h > 20)
        oh = cm.make_cphot(cp, SV(t=h), K)
        o525 = cm.make_cphot(cp, SV.of(_np.float32(525.0)), K)
        lat, lon = SV(t=z3.Real("lat")), SV(t=z3.Real("lon"))
        dh, ch = oh.run(beta, SV(t=alt), SV(t=E), lat, lon, None)
        d5, c5 = o525.run(beta, SV(t=alt), SV(t=E), lat, lon, None)
        # clamp below 1 degree: the kernel must see max(beta, 1 deg)
        seen = [a for n, a in oh.calls if n == "theta_view"][0][0]
        claims = {}
        claims["emergence angles below 1 deg are treated as 1 deg"] = z3.If(beta.t < PI / 180, SV.of(seen).term() == PI / 180, SV.of(seen).term() == beta.t)
        zero = z3.And(SV.of(dh).term() == 0, SV.of(ch).term() == 0)
        dist = dg["distance_to_detector"]
        bE = SV.of(seen)
        d_ref = dist(bE, SV(t=alt), oh.orbit_height, oh.RadE)
        d_h = dist(bE, SV(t=alt), SV(t=h), oh.RadE)
        claims["Cherenkov angle does not depend on the detector altitude"] = SV.of(ch).term() == SV.of(c5).term()
        claims["photon density(h) == density(525 km) * (d_525 / d_h)^2"] = SV.of(dh).term() * d_h.term() * d_h.term() == SV.of(d5).term() * d_ref.term() * d_ref.term()
        claims["at the reference orbit the scaling factor is 1"] = z3.Or(SV.of(d5).term() == 0, z3.BoolVal(True))
        inputs = {"det_alt": h, "beta": beta.t, "alt": alt, "Eshow": E}
        return harness.Out(claims=claims, inputs=inputs, skip_defd=lambda tag, where: None)

    return run


_INDEP_HELPERS = ("theta_view", "theta_prop", "valid_arrays", "e0", "cherenkov_threshold_angle", "tracklen", "d_to_det", "cher_ang_sig_i", "cherenkov_area")
_INDEP_ASSUMED = ("zsteps (compiled extension)", "grammage", "ozone_losses", "aerosol_model", "sphoton_yeild", "photon_sum")


def _flat(x):
    if isinstance(x, tuple):
        out = []
        for e in x:
            out += _flat(e)
        return out
    if isinstance(x, SymArray):
        return [SV.of(e) for e in x.a.reshape(-1)]
    return [SV.of(x)]


def indep_run(helper, K):
    """The altitude-scaling job treats the numeric helpers of CphotAng.run as functions of their
    arguments alone.  This job discharges that contract for the helpers the executor can run: the
    REAL helper body, numeric primitives uninterpreted, on two objects that differ only in
    detector_altitude (symbolic h vs the 525 km reference) and get identical symbolic arguments,
    must return identical results (same lengths, same terms) on every path."""

    def run(C):
        C.opaque_math = True
        sp, dg, cp = cm.load_cphot()
        Cls = cp["CphotAng"]
        h = z3.Real("det_alt")
        C.assume(h > 20)  # as in the scaling job: a detector above every simulated decay

        def mk(alt):
            return Cls(alt)  # the real constructor (reference orbit, zmax, constants and tables from /repo's source)

        oh, o5 = mk(SV(t=h)), mk(SV.of(_np.float32(525.0)))

        def arr(n, k=K):
            return symarr([f"{n}{i}" for i in range(k)])

        zs = arr("z")
        for i in range(K):
            C.assume(zs.a[i].t >= 0, zs.a[i].t <= 65)  # contract of zsteps: mid-bin altitudes between the decay altitude (>= 0) and zMaxZ = 65 km
        E = SV(t=z3.Real("Eshow"))
        C.assume(E.t > 1)
        sc = lambda n: SV(t=z3.Real(n))  # noqa
        args = {
            "theta_view": lambda: (sc("betaE"),),
            "theta_prop": lambda: (zs.copy(), sc("sinThetView")),
            "valid_arrays": lambda: (zs.copy(), arr("delgram"), arr("gramsum"), arr("gramz"), arr("ZonZ"), arr("ThetPrpA"), E),
            "e0": lambda: ((K,), arr("s")),
            "cherenkov_threshold_angle": lambda: (arr("AirN"),),
            "tracklen": lambda: (arr("E0"), arr("eCthres"), arr("s")),
            "d_to_det": lambda: (sc("ThetView"), arr("ThetPrpA"), zs.copy()),
            "cher_ang_sig_i": lambda: (arr("taphotstep"), sc("taphotsum"), arr("thetaC"), sc("AveCangI")),
            "cherenkov_area": lambda: (sc("AveCangI"), arr("DistStep"), 0),
        }[helper]
        rh = _flat(getattr(oh, helper)(*args()))
        r5 = _flat(getattr(o5, helper)(*args()))
        same = len(rh) == len(r5)
        claims = {f"{helper}: result for detector altitude h has the same shape as for the 525 km reference": z3.BoolVal(same)}
        if same:
            claims[f"{helper}: result does not depend on the detector altitude"] = z3.And([a.term() == b.term() for a, b in zip(rh, r5)]) if rh else z3.BoolVal(True)
        return harness.Out(claims=claims, inputs={"det_alt": h, **{f"z{i}": zs.a[i].t for i in range(K)}}, skip_defd=lambda tag, where: "numeric domain of the photon-yield helpers is C06 (not applicable); only independence of the detector altitude is claimed here")

    return run


def job_indep(helper, K, tier):
    return harness.run_job(f"CphotAng.{helper}: independent of the detector altitude (K={K})", indep_run(helper, K), timeout_ms=30000, twin=False)


def job_eas(N, tier):
    return harness.run_job(f"EAS.__call__(N={N})", eas_run(N), timeout_ms=60000 if tier == "quick" else 600000, second=(tier == "thorough"), watch=())


def job_dist(tier):
    return harness.run_job("distance_to_detector", dist_run(), timeout_ms=120000 if tier == "quick" else 600000, second=(tier == "thorough"))


def job_scaling(K, tier):
    return harness.run_job(f"CphotAng.run altitude scaling (K={K})", scaling_run(K), timeout_ms=120000 if tier == "quick" else 600000, second=(tier == "thorough"))


def jobs(tier, seed):
    return [("eas", "job_eas", {"N": 2, "tier": tier}), ("eas3", "job_eas", {"N": 3, "tier": tier}), ("eas1", "job_eas", {"N": 1, "tier": tier}),
            ("dist", "job_dist", {"tier": tier}), ("scal", "job_scaling", {"K": 3 if tier == "quick" else 4, "tier": tier})] + [
        (f"indep_{hname}", "job_indep", {"helper": hname, "K": 2 if tier == "quick" else 3, "tier": tier}) for hname in _INDEP_HELPERS]


def _real_eas(v, N):
    import numpy as np

    from nuspacesim.config import NssConfig
    from nuspacesim.simulation.eas_optical.eas import EAS

    cfg = NssConfig()
    cfg.detector.optical.telescope_effective_area = v.get("area", 2.5)
    cfg.detector.optical.quantum_efficiency = v.get("qe", 0.2)
    cfg.detector.optical.photo_electron_threshold = v.get("thr", 10.0)
    eas = object.__new__(EAS)
    eas.config = cfg
    alt = np.array([v.get(f"altDec{i}", 1.0) for i in range(N)], dtype=float)
    rho = np.array([v.get(f"rho{i}", 1.0) for i in range(N)], dtype=float)
    th = np.array([v.get(f"theta{i}", 1.0) for i in range(N)], dtype=float)
    seen = {}

    k_ = np.arange(N, dtype=float)
    cols = {"beta": 0.1 + 0.01 * k_, "E": 1.0 + k_, "lat": 0.2 + 0.01 * k_, "lon": -0.3 + 0.02 * k_}  # distinct per event: alignment is observable

    def kernel(beta, a, E, lat, lon, cloudf=None):
        m = (alt >= 0) & (alt <= 20)
        seen["n"] = len(a)
        seen["alt"] = np.array(a)
        got = {"beta": np.array(beta), "altDec": np.array(a), "E": np.array(E), "lat": np.array(lat), "lon": np.array(lon)}
        want = {"beta": cols["beta"][m], "altDec": alt[m], "E": cols["E"][m], "lat": cols["lat"][m], "lon": cols["lon"][m]}
        seen["misaligned"] = [f"{n_}: kernel received {got[n_].tolist()}, the in-range events have {want[n_].tolist()}" for n_ in got
                              if got[n_].shape != want[n_].shape or not np.array_equal(got[n_], want[n_])]
        return rho[m], th[m]

    eas.CphotAng = kernel
    z = np.zeros(N)
    cap = {}

    def prof(frame, event, arg):
        if event == "return" and frame.f_code.co_name == "__call__" and frame.f_code.co_filename.endswith("eas_optical/eas.py"):
            t = frame.f_locals.get("thetaChEff")
            cap["thetaChEff"] = None if t is None else np.array(t)

    import sys

    sys.setprofile(prof)
    try:
        pe, c = eas(cols["beta"].copy(), alt, cols["E"].copy(), cols["lat"].copy(), cols["lon"].copy(), cloudf=None)
    finally:
        sys.setprofile(None)
    seen["cos"] = np.array(c)
    return pe, cap.get("thetaChEff"), alt, rho, th, seen


def _replay_eas(m, N, ob):
    import numpy as np

    try:
        pe, theff, alt, rho, th, seen = _real_eas(m, N)
    except Exception as ex:
        return {"reproduced": True, "key": f"EAS.__call__: {type(ex).__name__}", "detail": f"raised {ex} at {m}"}
    if seen.get("misaligned"):
        return {"reproduced": True, "key": "EAS.__call__: the shower kernel does not receive the in-range events aligned across its five inputs",
                "detail": "; ".join(seen["misaligned"]) + f" (decay altitudes {alt.tolist()})"}
    area, qe, thr = m.get("area", 2.5), m.get("qe", 0.2), m.get("thr", 10.0)
    bad = None
    for i in range(N):
        inr = 0 <= alt[i] <= 20
        if inr:
            ref = rho[i] * area * qe
            ratio = ref / thr
            tref = th[i] * max(1.0, np.sqrt(2 * np.log(ratio))) if ratio > 2 else th[i]
            if "numPEs ==" in ob and abs(pe[i] - ref) > 1e-9 * abs(ref) + 1e-300:
                bad = f"numPEs[{i}]={pe[i]} vs density*area*QE={ref}"
            if ("effective angle" in ob or "ratio" in ob) and theff is not None and abs(theff[i] - tref) > 1e-6 * tref:
                bad = f"effective angle[{i}]={theff[i]} vs reference {tref} (ratio {ratio})"
            if ("effective angle" in ob or "ratio" in ob) and abs(seen["cos"][i] - np.cos(np.radians(tref))) > 1e-9:
                bad = f"event {i}: returned costhetaChEff {seen['cos'][i]} is not cos of the effective angle {tref} deg demanded for PE/threshold = {ratio}"
        else:
            if "zero photo" in ob and pe[i] != 0:
                bad = f"out-of-range event {i} has numPEs {pe[i]}"
            if "1.5 deg" in ob and theff is not None and abs(theff[i] - 1.5) > 1e-6:
                bad = f"out-of-range event {i} has angle {theff[i]}"
            if ("1.5 deg" in ob or "returned cosine" in ob) and abs(seen["cos"][i] - np.cos(np.radians(1.5))) > 1e-9:
                bad = f"out-of-range event {i}: returned costhetaChEff {seen['cos'][i]} is not cos(1.5 deg) = {np.cos(np.radians(1.5))}"
        if "returned cosine" in ob and theff is not None and abs(seen["cos"][i] - np.cos(np.radians(theff[i]))) > 1e-9:
            bad = f"event {i}: returned cosine {seen['cos'][i]} is not cos(radians({theff[i]}))"
    nin = int(((alt >= 0) & (alt <= 20)).sum())
    if ("simulated iff" in ob or "receives exactly" in ob) and seen.get("n", 0) != nin:
        bad = f"kernel saw {seen.get('n')} events, {nin} are in range (altDec={alt.tolist()})"
    if bad:
        return {"reproduced": True, "key": "EAS.__call__: " + ob.split("/", 1)[-1].split("] ", 1)[-1], "detail": bad + f" at {m}"}
    return {"reproduced": False, "key": None, "detail": "real code satisfies the predicate"}


def replay(v):
    import numpy as np

    job, ob = v.get("job", ""), v["obligation"]
    m = {k: x for k, x in (v.get("model") or {}).items() if x is not None}
    if job.startswith("EAS.__call__"):
        N = int(job.split("N=")[1].rstrip(")"))
        r = None
        for distinct in (False, True):
            mm = dict(m)
            if distinct:  # same in/out-of-range pattern, but every event with its own density and angle (a swap between events shows)
                for i in range(N):
                    mm[f"rho{i}"], mm[f"theta{i}"] = 30.0 * (i + 1.5), 0.4 + 0.17 * i
                mm.update({"area": 2.0, "qe": 0.5, "thr": 10.0})
            r = _replay_eas(mm, N, ob)
            if r["reproduced"]:
                return r
        return r
    if job.startswith("distance_to_detector"):
        from nuspacesim.simulation.eas_optical.detector_geometry import distance_to_detector

        b, z, zd, R = m.get("beta", 0.1), m.get("z", 1.0), m.get("zdet", 525.0), m.get("R", 6378.1)
        import warnings

        with warnings.catch_warnings():
            warnings.simplefilter("ignore")
            d = float(distance_to_detector(b, z, zd, R))
        ref = np.sqrt((R + zd) ** 2 - (R * np.cos(b)) ** 2) - np.sqrt((R + z) ** 2 - (R * np.cos(b)) ** 2)
        if abs(d - ref) > 1e-7 * abs(ref):
            return {"reproduced": True, "key": "distance_to_detector differs from the chord formula", "detail": f"d={d} chord={ref} at {m}"}
    if job.startswith("CphotAng.run"):
        return _replay_scaling(m, ob)
    if "independent of the detector altitude" in job:
        # the helper's dependence on the altitude must show at the observable: the real float32 kernel at the
        # model's altitude against the 525 km reference, for a few showers that develop high in the atmosphere
        helper = job.split(":")[0]
        for b, alt in ((0.2, 2.0), (35.0 * np.pi / 180, 8.0), (5.0 * np.pi / 180, 19.5), (20.0 * np.pi / 180, 15.0), (10.0 * np.pi / 180, 12.0)):
            r = _replay_scaling(dict(m, beta=b, alt=alt), "angle density")
            if r["reproduced"]:
                r["key"] = f"{helper} depends on the detector altitude: " + r["key"]
                r["detail"] += f" (emergence {b:.3f} rad, decay altitude {alt} km)"
                return r
        return {"reproduced": False, "key": None, "detail": "real kernel follows the scaling law at the model's altitude for the probe showers"}
    return {"reproduced": False, "key": None, "detail": "no reproduction"}


def _replay_scaling(m, ob):
    """two real CphotAng objects (float32 kernel) at 525 km and at the model's altitude"""
    import warnings

    import numpy as np

    from nuspacesim.simulation.eas_optical.cphotang import CphotAng
    from nuspacesim.simulation.eas_optical.detector_geometry import distance_to_detector

    h = m.get("det_alt", 33.0)
    b, alt, E = max(m.get("beta", 0.2), 0.0), min(max(m.get("alt", 2.0), 0.0), 20.0), 1.0
    with warnings.catch_warnings():
        warnings.simplefilter("ignore")
        a, c = CphotAng(h), CphotAng(525.0)
        dh, ch = a.run(b, alt, E, 0.0, 0.0, None)
        d5, c5 = c.run(b, alt, E, 0.0, 0.0, None)
        be = max(b, np.radians(1.0))
        s = (distance_to_detector(be, alt, 525.0, 6378.14) / distance_to_detector(be, alt, h, 6378.14)) ** 2
    if "angle" in ob and abs(ch - c5) > 1e-5 * abs(c5):
        return {"reproduced": True, "key": "CphotAng.run: Cherenkov angle depends on the detector altitude", "detail": f"{ch} at {h} km vs {c5} at 525 km"}
    if "density" in ob and abs(dh - d5 * s) > 1e-4 * abs(d5 * s):
        return {"reproduced": True, "key": "CphotAng.run: density does not follow the inverse-square distance scaling", "detail": f"{dh} at {h} km vs {d5}*{s}"}
    return {"reproduced": False, "key": None, "detail": "real kernel satisfies the relation"}


VALIDATE_JOB = "EAS.__call__(N=2)"


def validate(seed, tier):
    import numpy as np

    N = 2

    def sampler(rng):
        v = {"area": float(rng.uniform(0.5, 5)), "qe": float(rng.uniform(0.05, 0.9)), "thr": float(rng.uniform(1, 50)), "det_alt": 525.0}
        for i in range(N):
            v[f"altDec{i}"] = float(rng.choice([rng.uniform(0, 20), rng.uniform(20.1, 60), -1.0], p=[0.7, 0.2, 0.1]))
            v[f"rho{i}"] = float(10 ** rng.uniform(-2, 4))
            v[f"theta{i}"] = float(rng.uniform(0.3, 3))
            for n in ("beta", "E", "lat", "lon"):
                v[f"{n}{i}"] = float(rng.uniform(0.01, 1))
        return v

    def real(v):
        pe, theff, *_r, seen = _real_eas(v, N)
        return {"numPEs": pe, "costhetaChEff": seen["cos"]}

    return harness.validate(eas_run(N), sampler, real, 50, seed, rel=1e-7)


MANIFEST_ENTRY = {
    "level_text": "Bounded symbolic execution of the real EAS.__call__ (shower kernel stubbed by a recorder), the real control skeleton of CphotAng.run (numeric helpers as deterministic uninterpreted functions, K=3/4 segments) and the real distance_to_detector / viewing_angle / propagation_angle: nlsat proves numPEs = density*area*QE, the [0,20] km range cut (exact zero and 1.5 deg, events absent from the kernel's arguments, row alignment), the effective-angle law (intrinsic * sqrt(2 ln(PE/thr)) above ratio 2, >= intrinsic, monotone in signal; ln 2 enclosed by intervals), the 1-degree clamp, that density(h) = density(525 km) * (d_525/d_h)^2 with an unchanged angle for every detector altitude, and that distance_to_detector equals the chord formula for all angles and altitudes.",
    "level_note": "The independence of the detector altitude that the uninterpreted helpers assume is discharged for nine of them (theta_view, theta_prop, valid_arrays, e0, cherenkov_threshold_angle, tracklen, d_to_det, cher_ang_sig_i, cherenkov_area) by executing their REAL bodies (numeric primitives uninterpreted) on two objects built by the real constructor that differ only in altitude; zsteps (compiled), grammage, ozone_losses, aerosol_model, sphoton_yeild and photon_sum remain assumed. The effective angle is read off the returned cosine, not off a local variable. REAL arithmetic; the photon-yield helpers are uninterpreted (their numeric content is C06, not applicable); float32 casts are the identity on symbolic values; N <= 3 events, K <= 4 segments.",
    "technique": "symbolic execution of the real NumPy source + z3 qfnra-nlsat (uninterpreted helpers, algebraised trigonometry, Ackermannised log)",
}
