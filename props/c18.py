"""C18 -- gridded lookup tables: exact slicing, row-wise interpolation, sound shipped data
(partial: HDF5/FITS file round trips are astropy/h5py I/O and are not encoded)."""
from __future__ import annotations

from fractions import Fraction as Fr

import numpy as _np
import z3

from props import tables
from symnp import core, harness, load, stubs
from symnp.arr import SymArray, symarr
from symnp.core import SV

ID = "C18"
META = {
    "bounds": {
        "quick": "vec_1d_interp: rows of M in {2,3,4} nodes, batches of 1 and 2 rows (M=3), all symbolic, non-decreasing with plateaus allowed, query strictly inside; grid_slice_interp: 2-D (3x2) and 3-D (2x3x2) grids with symbolic data and axes, every axis position, by index and by name; data: every row of all six shipped tables (one query per row, symbolic column index)",
        "thorough": "M up to 5, batches of 2 rows with M=4; same grids; second solver",
    },
    "outside_bounds": ["NssGrid FITS round trips (astropy.io): not encoded, not claimed; HDF5: the library itself is modelled in memory (documented group/dataset semantics, validated against real h5py on the same histories) -- byte-level storage and dtype conversion are outside", "rows longer than 5 nodes (each output depends on one bracket only)", "IEEE rounding (REAL mode)",
                       "grids of 1 or 4 dimensions for the slice bookkeeping"],
    "stubs": ["scipy.interpolate.interp1d -> reference piecewise-linear interpolation along `axis` (forks on the bracket, ValueError outside the axis range)",
              "NssGrid -> duck-typed GridStub with the same constructor checks (NDDataArray needs real ndarrays)",
              "h5py -> symnp.h5stub (in-memory groups / datasets / attrs; create_* refuses existing names, require_* returns existing objects untouched, file modes r/w/w-/a)",
              "astropy NDDataArray -> holder of the data array (HDF5 job; the real NssGrid constructor, meta and axes code runs)"],
    "assumptions": ["REAL mode", "rows non-decreasing, query strictly inside (row[0] < x < row[-1]) as in the statement's quantifier"],
}
LEDGER = {"quick": 225, "thorough": 280}
MOD = "nuspacesim.utils.interp"


def _ns():
    return load.load(MOD, {"interp1d": stubs.interp1d, "NssGrid": stubs.GridStub})


def vec_run(M, n):
    def run(C):
        ns = _ns()
        xs = SymArray(_np.array([[SV(t=z3.Real(f"xs{r}_{k}")) for k in range(M)] for r in range(n)], dtype=object).reshape(n, M), "float")
        ys = symarr([f"ys{k}" for k in range(M)])
        x = symarr([f"x{r}" for r in range(n)])
        for r in range(n):
            for k in range(M - 1):
                C.assume(z3.Real(f"xs{r}_{k}") <= z3.Real(f"xs{r}_{k+1}"))
            C.assume(z3.Real(f"xs{r}_0") < z3.Real(f"x{r}"), z3.Real(f"x{r}") < z3.Real(f"xs{r}_{M-1}"))
        y = ns["vec_1d_interp"](xs, ys, x)
        # (claims are stated on the returned values only: nothing here depends on the names of the
        # implementation's local variables)
        claims = {"one output per row": z3.BoolVal(y.shape == (n,))}
        for r in range(n):
            X = z3.Real(f"x{r}")
            ref = z3.RealVal(0)
            for k in range(M - 1):
                a, b = z3.Real(f"xs{r}_{k}"), z3.Real(f"xs{r}_{k+1}")
                ya, yb = z3.Real(f"ys{k}"), z3.Real(f"ys{k+1}")
                ref = z3.If(z3.And(a < X, X <= b), ya + (X - a) * (yb - ya) / (b - a), ref)
            claims[f"row {r}: equals piecewise-linear interpolation"] = y[r].term() == ref
        inputs = {f"x{r}": z3.Real(f"x{r}") for r in range(n)}
        for r in range(n):
            for k in range(M):
                inputs[f"xs{r}_{k}"] = z3.Real(f"xs{r}_{k}")
        for k in range(M):
            inputs[f"ys{k}"] = z3.Real(f"ys{k}")
        return harness.Out(claims=claims, inputs=inputs, observe={"y": y})

    return run


def slice_run(shape, axis, by_name, int_grid=False):
    nd = len(shape)
    names = ["ax%d" % i for i in range(nd)]

    def run(C):
        ns = _ns()
        data = _np.empty(shape, dtype=object)
        for idx in _np.ndindex(*shape):
            data[idx] = SV(t=z3.Real("d_" + "_".join(map(str, idx))), isint=int_grid)
        axes = []
        for i, s in enumerate(shape):
            axes.append(symarr([f"a{i}_{k}" for k in range(s)]))
            for k in range(s - 1):
                C.assume(z3.Real(f"a{i}_{k}") < z3.Real(f"a{i}_{k+1}"))
        g = stubs.GridStub(SymArray(data, "int" if int_grid else "float"), axes, names)  # (an integer table: "for any dtype")
        v = z3.Real("v")
        C.assume(v >= z3.Real(f"a{axis}_0"), v <= z3.Real(f"a{axis}_{shape[axis]-1}"))
        out = ns["grid_slice_interp"](g, SV(t=v), names[axis] if by_name else axis)
        rest = [i for i in range(nd) if i != axis]
        claims = {
            "result drops exactly the sliced axis name": z3.BoolVal(out.axis_names == [names[i] for i in rest]),
            "result keeps the other axes (same objects, same order)": z3.BoolVal(len(out.axes) == nd - 1 and all(out.axes[j] is g.axes[i] for j, i in enumerate(rest))),
            "result shape is the grid shape without the sliced axis": z3.BoolVal(tuple(out.data.shape) == tuple(shape[i] for i in rest)),
        }
        # reference: linear blend of the two neighbouring sub-grids / the node sub-grid at nodes
        conj_blend, conj_node = [], []
        for idx in _np.ndindex(*[shape[i] for i in rest]):
            got = out.data[idx].term() if out.data.ndim else SV.of(out.data.item()).term()
            ref = z3.RealVal(0)
            for k in range(shape[axis] - 1):
                a, b = z3.Real(f"a{axis}_{k}"), z3.Real(f"a{axis}_{k+1}")
                full0 = list(idx)
                full0.insert(axis, k)
                full1 = list(idx)
                full1.insert(axis, k + 1)
                d0, d1 = data[tuple(full0)].term(), data[tuple(full1)].term()
                ref = z3.If(z3.And(a <= v, v <= b), d0 + (v - a) * (d1 - d0) / (b - a), ref)
            conj_blend.append(got == ref)
            for k in range(shape[axis]):
                full = list(idx)
                full.insert(axis, k)
                conj_node.append(z3.Implies(v == z3.Real(f"a{axis}_{k}"), got == data[tuple(full)].term()))
        claims["data == linear blend of the two neighbouring sub-grids"] = z3.And(*conj_blend)
        claims["at a node the stored sub-grid is reproduced exactly"] = z3.And(*conj_node)
        inputs = {"v": v}
        return harness.Out(claims=claims, inputs=inputs)

    return run


def slice_outside_run():
    def run(C):
        ns = _ns()
        g = stubs.GridStub(SymArray(_np.array([[SV(t=z3.Real(f"d{i}{j}")) for j in range(2)] for i in range(2)], dtype=object).reshape(2, 2)),
                           [symarr(["a0", "a1"]), symarr(["b0", "b1"])], ["A", "B"])
        C.assume(z3.Real("a0") < z3.Real("a1"), z3.Real("b0") < z3.Real("b1"))
        v = z3.Real("v")
        C.assume(z3.Or(v < z3.Real("a0"), v > z3.Real("a1")))
        try:
            ns["grid_slice_interp"](g, SV(t=v), "A")
            raised = False
        except ValueError:
            raised = True
        return harness.Out(claims={"a slice coordinate outside the axis range is rejected": z3.BoolVal(raised)})

    return run


def job_vec(M, n, tier):
    return harness.run_job(f"vec_1d_interp(M={M},rows={n})", vec_run(M, n), timeout_ms=60000 if tier == "quick" else 300000, second=(tier == "thorough"))


def job_slice(shape, axis, by_name, tier, int_grid=False):
    return harness.run_job(f"grid_slice_interp(shape={tuple(shape)},axis={axis},{'name' if by_name else 'index'}{', integer grid' if int_grid else ''})", slice_run(tuple(shape), axis, by_name, int_grid),
                           timeout_ms=60000, second=(tier == "thorough"))


def job_slice_outside(tier):
    return harness.run_job("grid_slice_interp(outside range)", slice_outside_run(), timeout_ms=20000)


def job_cdf(version, part=0, nparts=1):
    from nuspacesim.simulation.taus.taus import massTau

    return harness.plain_job(f"data nu2tau_cdf.{version} part {part+1}/{nparts}", lambda: tables.check_cdf_table(version, massTau, part, nparts))


def job_pexit(version):
    return harness.plain_job(f"data nu2tau_pexit.{version}", lambda: tables.check_pexit_table(version))


# ---------------------------------------------------------------------------------
# HDF5 write/read histories (h5py modelled in memory, data and axes symbolic)
def _grid_ns():
    class NDStub:
        """astropy NDDataArray stand-in: holds the data array (the real class needs real ndarrays)"""

        def __init__(self, data, *a, **k):
            self._data = data

        data = property(lambda self: self._data)
        ndim = property(lambda self: self._data.ndim)
        shape = property(lambda self: self._data.shape)

    return load.load("nuspacesim.utils.grid", {"NDDataArray": NDStub})


def _mkgrid(ns, tag, shape, names, axis_tag=None):
    data = SymArray(_np.array([SV(t=z3.Real(f"{tag}_d{'_'.join(map(str, i))}")) for i in _np.ndindex(*shape)], dtype=object).reshape(shape), "float")
    axes = [symarr([f"{axis_tag or tag}_a{k}_{j}" for j in range(n)]) for k, n in enumerate(shape)]
    return ns["NssGrid"](data, axes, list(names))


def _grid_eq(a, b):
    """term identity of data, axes and axis names"""
    if tuple(a.data.shape) != tuple(b.data.shape) or list(a.axis_names) != list(b.axis_names) or len(a.axes) != len(b.axes):
        return False
    same = lambda x, y: SymArray(x).shape == SymArray(y).shape and all(SV.of(p).term().eq(SV.of(q).term()) for p, q in zip(SymArray(x).a.reshape(-1), SymArray(y).a.reshape(-1)))  # noqa
    return same(a.data, b.data) and all(same(x, y) for x, y in zip(a.axes, b.axes))


HDF5_SCENARIOS = ("fresh file", "rewrite in place (overwrite=True), same names and shape, new values", "rewrite in place with a different shape", "two groups in one file",
                  "second write without overwrite is refused and leaves the file unchanged", "rewrite in place with other axis names")


def hdf5_run():
    def run(C):
        import sys

        from symnp import h5stub

        ns = _grid_ns()
        W, R = ns["hdf5_nssgrid_writer"], ns["hdf5_nssgrid_reader"]
        old = sys.modules.get("h5py")
        sys.modules["h5py"] = h5stub.module()
        claims = {}
        try:
            names = ["log_e_nu", "beta_rad"]
            for sc in HDF5_SCENARIOS:
                h5stub.reset()
                g1 = _mkgrid(ns, "g1", (2, 3), names)
                g2 = _mkgrid(ns, "g2", (2, 3), names)
                try:
                    if sc == "fresh file":
                        W(g1, "t.h5")
                        ok = _grid_eq(R("t.h5"), g1)
                        W(g2, "u.h5", path="/pexit", overwrite=True)
                        ok = ok and _grid_eq(R("u.h5", path="/pexit"), g2) and _grid_eq(R("t.h5"), g1)
                    elif sc.startswith("rewrite in place (overwrite=True)"):
                        W(g1, "t.h5", overwrite=True)
                        W(g2, "t.h5", overwrite=True)
                        ok = _grid_eq(R("t.h5"), g2)
                    elif sc == "rewrite in place with a different shape":
                        g3 = _mkgrid(ns, "g3", (3, 2), names)
                        W(g1, "t.h5", overwrite=True)
                        W(g3, "t.h5", overwrite=True)
                        ok = _grid_eq(R("t.h5"), g3)
                    elif sc == "rewrite in place with other axis names":
                        g4 = _mkgrid(ns, "g4", (2, 3), ["e_tau_frac", "beta_rad"])
                        W(g1, "t.h5", overwrite=True)
                        W(g4, "t.h5", overwrite=True)
                        ok = _grid_eq(R("t.h5"), g4)
                    elif sc == "two groups in one file":
                        W(g1, "t.h5", path="/a", overwrite=True)
                        W(g2, "t.h5", path="/b", overwrite=True)
                        W(g1, "t.h5", path="/b", overwrite=True)
                        W(g2, "t.h5", path="/a", overwrite=True)
                        ok = _grid_eq(R("t.h5", path="/a"), g2) and _grid_eq(R("t.h5", path="/b"), g1)
                    else:
                        W(g1, "t.h5", overwrite=True)
                        try:
                            W(g2, "t.h5", overwrite=False)
                            refused = False
                        except (FileExistsError, OSError, ValueError):
                            refused = True
                        ok = refused and _grid_eq(R("t.h5"), g1)
                except Exception as ex:  # noqa
                    ok = False
                    sc = sc  # the claim below records the failure
                    claims[f"HDF5 ({sc}): no exception"] = z3.BoolVal(False)
                    C.events.append(("hdf5-exception", sc, f"{type(ex).__name__}: {ex}"))
                claims[f"HDF5 ({sc}): the grid read back equals the grid last written there (data, axes, axis names: identical terms)"] = z3.BoolVal(bool(ok))
        finally:
            if old is None:
                sys.modules.pop("h5py", None)
            else:
                sys.modules["h5py"] = old
        return harness.Out(claims=claims)

    return run


def job_hdf5(tier):
    return harness.run_job("NssGrid HDF5 write/read histories (h5py modelled in memory)", hdf5_run(), timeout_ms=10000, twin=False)


def _replay_hdf5(ob):
    """the same histories with real h5py, real NssGrid and real files"""
    import os
    import tempfile
    import warnings

    import numpy as np

    from nuspacesim.utils.grid import NssGrid

    warnings.simplefilter("ignore")
    rng = np.random.default_rng(18)

    def mk(shape, names):
        return NssGrid(rng.uniform(0, 1, shape), [np.sort(rng.uniform(0, 10, n)) for n in shape], list(names))

    def eq(a, b):
        return a.data.shape == b.data.shape and np.array_equal(a.data, b.data) and list(a.axis_names) == list(b.axis_names) and all(np.array_equal(x, y) for x, y in zip(a.axes, b.axes))

    names = ["log_e_nu", "beta_rad"]
    sc = ob.split("HDF5 (", 1)[1].split("): ")[0] if "HDF5 (" in ob else HDF5_SCENARIOS[1]
    with tempfile.TemporaryDirectory() as d:
        f = os.path.join(d, "t.h5")
        g1, g2 = mk((2, 3), names), mk((2, 3), names)
        try:
            if sc == "fresh file":
                g1.write(f, format="hdf5")
                bad = not eq(NssGrid.read(f, format="hdf5"), g1)
            elif sc.startswith("rewrite in place (overwrite=True)"):
                g1.write(f, format="hdf5", overwrite=True)
                g2.write(f, format="hdf5", overwrite=True)
                bad = not eq(NssGrid.read(f, format="hdf5"), g2)
            elif sc == "rewrite in place with a different shape":
                g3 = mk((3, 2), names)
                g1.write(f, format="hdf5", overwrite=True)
                g3.write(f, format="hdf5", overwrite=True)
                bad = not eq(NssGrid.read(f, format="hdf5"), g3)
            elif sc == "rewrite in place with other axis names":
                g4 = mk((2, 3), ["e_tau_frac", "beta_rad"])
                g1.write(f, format="hdf5", overwrite=True)
                g4.write(f, format="hdf5", overwrite=True)
                bad = not eq(NssGrid.read(f, format="hdf5"), g4)
            elif sc == "two groups in one file":
                g1.write(f, format="hdf5", path="/a", overwrite=True)
                g2.write(f, format="hdf5", path="/b", overwrite=True)
                g1.write(f, format="hdf5", path="/b", overwrite=True)
                g2.write(f, format="hdf5", path="/a", overwrite=True)
                bad = not (eq(NssGrid.read(f, format="hdf5", path="/a"), g2) and eq(NssGrid.read(f, format="hdf5", path="/b"), g1))
            else:
                g1.write(f, format="hdf5", overwrite=True)
                try:
                    g2.write(f, format="hdf5", overwrite=False)
                    bad = True
                except Exception:  # noqa
                    bad = not eq(NssGrid.read(f, format="hdf5"), g1)
        except Exception as ex:  # noqa
            return {"reproduced": True, "key": f"NssGrid HDF5 ({sc}): raises", "detail": f"{type(ex).__name__}: {ex}"}
    if bad:
        return {"reproduced": True, "key": f"NssGrid HDF5 ({sc}): the grid read back differs from the grid written", "detail": f"real h5py, real files: history '{sc}' does not read back the grid last written"}
    return {"reproduced": False, "key": None, "detail": f"real h5py: history '{sc}' reads back the grid written"}


def jobs(tier, seed):
    out = []
    cfgs = [(2, 1), (3, 1), (4, 1), (3, 2)] if tier == "quick" else [(2, 1), (3, 1), (4, 1), (5, 1), (3, 2), (4, 2)]
    for M, n in cfgs:
        out.append((f"vec{M}x{n}", "job_vec", {"M": M, "n": n, "tier": tier}))
    for shape in ((3, 2), (2, 3, 2)):
        for ax in range(len(shape)):
            for by in (False, True):
                out.append((f"slice{shape}{ax}{by}", "job_slice", {"shape": list(shape), "axis": ax, "by_name": by, "tier": tier}))
    out.append(("sliceint", "job_slice", {"shape": [3, 2], "axis": 0, "by_name": False, "tier": tier, "int_grid": True}))
    out.append(("sliceout", "job_slice_outside", {"tier": tier}))
    out.append(("hdf5", "job_hdf5", {"tier": tier}))
    for v in ("1", "2", "3"):
        for part in range(4):
            out.append((f"cdf{v}.{part}", "job_cdf", {"version": v, "part": part, "nparts": 4}))
        out.append((f"pexit{v}", "job_pexit", {"version": v}))
    return out


def _real_vec(v, M, n):
    import numpy as np

    from nuspacesim.utils.interp import vec_1d_interp

    xs = np.array([[v[f"xs{r}_{k}"] for k in range(M)] for r in range(n)], dtype=float)
    ys = np.array([v[f"ys{k}"] for k in range(M)], dtype=float)
    x = np.array([v[f"x{r}"] for r in range(n)], dtype=float)
    return xs, ys, x, vec_1d_interp(xs, ys, x)


def replay(v):
    import numpy as np

    job = v.get("job", "")
    if job.startswith("data "):
        return tables.replay_data(v)
    if job.startswith("NssGrid HDF5"):
        return _replay_hdf5(v["obligation"])
    if job.startswith("grid_slice_interp(shape="):
        # real NssGrid objects of several dtypes and dimensions: slices at nodes and between nodes against the
        # linear blend of the two neighbouring sub-grids computed independently in float64
        import warnings

        from nuspacesim.utils.grid import NssGrid
        from nuspacesim.utils.interp import grid_slice_interp

        warnings.simplefilter("ignore")
        rng = np.random.default_rng(18)
        for dtype in (np.float64, np.int64, np.float32, np.int16):
            for shape in ((3, 2), (2, 3, 2), (4, 3)):
                raw = rng.uniform(-300, 300, shape)
                data = raw.astype(dtype)
                axes = [np.sort(rng.uniform(0, 10, n)) for n in shape]
                names = [f"ax{i}" for i in range(len(shape))]
                g = NssGrid(data, axes, names)
                for ax in range(len(shape)):
                    for k in range(shape[ax] - 1):
                        for frac in (0.0, 0.37, 1.0):
                            val = axes[ax][k] + frac * (axes[ax][k + 1] - axes[ax][k])
                            for sel in (ax, names[ax]):
                                out = grid_slice_interp(g, val, sel)
                                d0, d1 = np.take(data, k, axis=ax).astype(float), np.take(data, k + 1, axis=ax).astype(float)
                                want = d0 + (val - axes[ax][k]) * (d1 - d0) / (axes[ax][k + 1] - axes[ax][k])
                                got = np.asarray(out.data, dtype=float)
                                if got.shape != want.shape or not np.allclose(got, want, rtol=1e-6, atol=1e-4):
                                    j = np.unravel_index(int(np.argmax(np.abs(got - want))), want.shape) if got.shape == want.shape else None
                                    return {"reproduced": True, "key": "grid_slice_interp: slice is not the linear blend of the neighbouring sub-grids",
                                            "detail": f"{np.dtype(dtype).name} grid of shape {shape}, axis {sel!r}, coordinate {frac:.2f} of the way from node {k} to node {k+1}: "
                                                      + (f"cell {j}: {got[j]!r} returned, blend is {want[j]!r}" if j is not None else f"shape {got.shape} vs {want.shape}")}
        # float64 grids, coordinates next to (but not on) a node, and axes whose values are large compared with their
        # spacing: the blend is exact to rounding, any snapping to a node shows
        for shape in ((3, 2), (2, 3, 2)):
            data = rng.uniform(-300, 300, shape)
            for axes in ([np.sort(rng.uniform(0, 10, n)) for n in shape], [5.0e4 + 0.25 * np.arange(n) for n in shape], [6.0 + 0.5 * np.arange(n) for n in shape]):
                g = NssGrid(data, axes, [f"ax{i}" for i in range(len(shape))])
                for ax in range(len(shape)):
                    for k in range(shape[ax] - 1):
                        h = axes[ax][k + 1] - axes[ax][k]
                        for frac in (4e-6, 0.37, 1 - 4e-6):
                            val = axes[ax][k] + frac * h
                            out = grid_slice_interp(g, val, ax)
                            d0, d1 = np.take(data, k, axis=ax), np.take(data, k + 1, axis=ax)
                            want = d0 + (val - axes[ax][k]) * (d1 - d0) / h
                            got = np.asarray(out.data, dtype=float)
                            if got.shape != want.shape or not np.allclose(got, want, rtol=1e-9, atol=1e-9 * np.abs(d1 - d0).max()):
                                return {"reproduced": True, "key": "grid_slice_interp: slice is not the linear blend of the neighbouring sub-grids",
                                        "detail": f"float64 grid of shape {shape}, axis {ax} with nodes {axes[ax].tolist()}, coordinate {val!r} ({frac} of the way from node {k} to node {k+1}): "
                                                  f"returned {got.ravel()[:3].tolist()}..., blend is {want.ravel()[:3].tolist()}..."}
        return {"reproduced": False, "key": None, "detail": "real grids (float64, int64, float32, int16; 2-D and 3-D): slices equal the blend"}
    m = v.get("model") or {}
    if job.startswith("vec_1d_interp"):
        M = int(job.split("M=")[1].split(",")[0])
        n = int(job.split("rows=")[1].rstrip(")"))
        full = {**{f"xs{r}_{k}": float(k) for r in range(n) for k in range(M)}, **{f"ys{k}": 0.0 for k in range(M)}, **{f"x{r}": 0.5 for r in range(n)}}
        full.update({k: val for k, val in m.items() if val is not None})
        try:
            xs, ys, x, y = _real_vec(full, M, n)
        except Exception as e:
            return {"reproduced": True, "key": f"vec_1d_interp: {type(e).__name__}", "detail": f"vec_1d_interp raised {type(e).__name__}: {e} for {full}"}
        for r in range(n):
            ref = np.interp(x[r], xs[r], ys)
            # np.interp needs increasing xs; with plateaus take the left-continuous bracket like the statement
            k = max(i for i in range(M - 1) if xs[r, i] < x[r])
            ref = ys[k] + (x[r] - xs[r, k]) * (ys[k + 1] - ys[k]) / (xs[r, k + 1] - xs[r, k])
            if y.shape != (n,) or not np.isfinite(y[r]) or abs(y[r] - ref) > 1e-9 * (abs(ref) + abs(y[r])) + 1e-12:
                return {"reproduced": True, "key": "vec_1d_interp: differs from piecewise-linear interpolation",
                        "detail": f"row {r}: vec_1d_interp gave {y.tolist()}, piecewise-linear reference {ref} for xs={xs[r].tolist()} ys={ys.tolist()} x={x[r]}"}
        return {"reproduced": False, "key": None, "detail": "real code agrees with the reference at the model point"}
    return {"reproduced": False, "key": None, "detail": "structural claim (no numeric replay)"}


def validate(seed, tier):
    M, n = 4, 2

    def sampler(rng):
        v = {}
        for r in range(n):
            row = np.sort(rng.uniform(0, 1, M))
            if rng.uniform() < 0.5:
                row[1] = row[0]  # plateau
            for k in range(M):
                v[f"xs{r}_{k}"] = float(row[k])
            v[f"x{r}"] = float(rng.uniform(row[0] + 1e-6 + (row[-1] - row[0]) * 0.01, row[-1] - 1e-9))
        for k in range(M):
            v[f"ys{k}"] = float(rng.uniform(-3, 3))
        return v

    import numpy as np

    def real(v):
        xs, ys, x, y = _real_vec(v, M, n)
        return {"y": y}

    n_ok = harness.validate(vec_run(M, n), sampler, real, 60, seed)
    # the in-memory h5py model against real h5py: every history of the HDF5 job with real files
    fails = []
    for sc in HDF5_SCENARIOS:
        ob = f"HDF5 ({sc}): the grid read back equals the grid last written there (data, axes, axis names: identical terms)"
        r = _replay_hdf5(ob)
        if r["reproduced"]:
            fails.append({"obligation": ob, "verdict": "sat", "kind": "claim", "time_s": 0.0, "model": {}, "detail": r["detail"],
                          "reason": "history fails with real h5py and real files (concrete run; also validates the in-memory h5py model)"})
    if isinstance(n_ok, tuple):
        return n_ok[0] + len(HDF5_SCENARIOS), list(n_ok[1]) + fails
    return (n_ok + len(HDF5_SCENARIOS), fails) if fails else n_ok + len(HDF5_SCENARIOS)


VALIDATE_JOB = "NssGrid HDF5 write/read histories (real h5py)"


MANIFEST_ENTRY = {
    "level_text": "Partial claim. (a) The real vec_1d_interp (with left_shift/right_shift) is executed symbolically on arbitrary non-decreasing rows (plateaus allowed) of up to 4 (quick) / 5 (thorough) nodes, batches of up to 2 rows, query strictly inside: nlsat proves the result equals piecewise-linear interpolation, exactly one bracket per row, x1-x0 != 0. (b) The real grid_slice_interp is executed on 2-D and 3-D grids with symbolic data/axes for every axis position: dropped axis/name, linear blend of neighbouring sub-grids, exact sub-grid at nodes, rejection outside the range. (c) Every row of all six shipped nupyprop tables is checked by one z3 query per row with the column index symbolic (axes strictly increasing, CDF rows non-decreasing, first column 0, last within 1e-15 of 1, exit probabilities in [0,1], smallest reachable tau energy above the tau mass), with witness twins.",
    "level_note": "HDF5 round trips: the real hdf5_nssgrid_writer / reader and NssGrid constructor run on symbolic grids against an in-memory model of h5py for six write/read histories (fresh file, in-place rewrites, two groups, refused overwrite); read-back equality is term identity; the model is validated against real h5py on the same histories at every run. NOT covered: FITS round trips (astropy.io), byte-level storage. interp1d and NssGrid are stubs (reference interpolation / duck-typed holder). REAL arithmetic. Tables are read with the repository's own reader at run time.",
    "technique": "symbolic execution of the real NumPy source + z3 nlsat; per-row z3 queries with symbolic index over the shipped tables",
}
