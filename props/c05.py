"""C05 -- tau exit probability is a faithful, bounded interpolation of the tables."""
from __future__ import annotations

import itertools
from fractions import Fraction as Fr

import numpy as _np
import z3

from props import tables
from symnp import core, harness, load, stubs
from symnp.arr import SymArray, symarr
from symnp.core import SV

ID = "C05"
EPS32 = Fr(1, 2**23)
META = {
    "bounds": {
        "quick": "2x2 table patch (one cell) with symbolic axes and arbitrary real entries <= 1 (non-positive allowed); one event below / inside / above the beta range; two consecutive calls on one object; all three shipped exit-probability tables row by row",
        "thorough": "additionally a 3x2 patch (two energy cells) and N=2 events (9 clamp patterns); second solver",
    },
    "outside_bounds": ["IEEE rounding of log10 / 10** (REAL mode with mutually inverse strictly monotone uninterpreted functions)", "scipy's own cell search (stubbed by the reference multilinear interpolation)", "patches larger than 3x2 nodes"],
    "stubs": ["scipy.interpolate.RegularGridInterpolator -> reference multilinear interpolation, ValueError outside the axes (bounds_error default), records its arguments", "NssGrid -> GridStub"],
    "assumptions": ["REAL mode", "log10 and 10** are strictly monotone mutual inverses (sound axiom instances)", "table entries <= 1 (established for the shipped tables by the data queries)"],
}
LEDGER = {"quick": 340, "thorough": 500}


def _load():
    return load.load("nuspacesim.simulation.taus.taus", {"RegularGridInterpolator": stubs.RegularGridInterpolator, "NssGrid": stubs.GridStub})


def mk_patch(C, nE, nB, pre="T"):
    E = [z3.Real(f"E{i}") for i in range(nE)]
    B = [z3.Real(f"B{j}") for j in range(nB)]
    for i in range(nE - 1):
        C.assume(E[i] < E[i + 1])
    for j in range(nB - 1):
        C.assume(B[j] < B[j + 1])
    C.assume(B[0] > 0)
    data = _np.empty((nE, nB), dtype=object)
    for i in range(nE):
        for j in range(nB):
            t = z3.Real(f"{pre}{i}{j}")
            C.assume(t <= 1)
            data[i, j] = SV(t=t)
    g = stubs.GridStub(SymArray(data), [SymArray([SV(t=e) for e in E]), SymArray([SV(t=b) for b in B])], ["log_e_nu", "beta_rad"])
    return g, E, B


def _floor(t):
    return z3.If(t <= z3.RealVal(0), core.rv(EPS32), t)


def main_run(nE, nB, where):
    """one event; `where` in {'inside', 'below', 'above'} w.r.t. the beta axis"""

    def run(C):
        ns = _load()
        g, E, B = mk_patch(C, nE, nB)
        T = object.__new__(ns["Taus"])
        T.pexit_grid = g
        le, be = z3.Real("logE"), z3.Real("beta")
        C.assume(le >= E[0], le <= E[nE - 1], be >= 0)
        if where == "inside":
            C.assume(be >= B[0], be <= B[nB - 1])
        elif where == "below":
            C.assume(be < B[0])
        else:
            C.assume(be > B[nB - 1])
        stubs.InterpRecorder.calls.clear()
        T0 = [[z3.Real(f"T{i}{j}") for j in range(nB)] for i in range(nE)]
        stubs.InterpRecorder.cells.clear()
        lemmas = []
        r1 = T.tau_exit_prob(SymArray([SV(t=be)]), SymArray([SV(t=le)]))
        cells_log = list(stubs.InterpRecorder.cells)
        calls = [c for c in stubs.InterpRecorder.calls if c["fn"] == "RegularGridInterpolator"]
        data1 = g.data.copy()
        r2 = T.tau_exit_prob(SymArray([SV(t=be)]), SymArray([SV(t=le)]))
        data2 = g.data
        p = r1[0].term()
        claims = {}
        claims["interpolator built over (log_e_nu, beta_rad) in that order, raising outside the table"] = z3.BoolVal(
            len(calls) >= 1 and calls[0]["bounds_error"] is True and len(calls[0]["points"]) == 2
            and all(x.term().eq(e) for x, e in zip(calls[0]["points"][0].a, E)) and all(x.term().eq(b) for x, b in zip(calls[0]["points"][1].a, B)))
        claims["table after a call == floor(table) (non-positive entries replaced by eps32)"] = z3.And(
            *[data1.a[i, j].term() == _floor(T0[i][j]) for i in range(nE) for j in range(nB)])
        claims["second call leaves the floored table unchanged (floor is idempotent)"] = z3.And(
            *[data2.a[i, j].term() == data1.a[i, j].term() for i in range(nE) for j in range(nB)])
        claims["history independence: a repeated call returns the same value"] = r2[0].term() == p
        claims["value in (0, 1]"] = z3.And(p > 0, p <= 1)
        lo_ref = None
        if where in ("inside", "below"):
            bq = be if where == "inside" else B[0]
            # per energy/beta cell reference (independent bilinear blend of log10 floor(T))
            parts = []
            for ci in range(nE - 1):
                for cj in range(nB - 1):
                    incell = z3.And(le >= E[ci], le <= E[ci + 1], bq >= B[cj], bq <= B[cj + 1])
                    tx = (le - E[ci]) / (E[ci + 1] - E[ci])
                    ty = (bq - B[cj]) / (B[cj + 1] - B[cj])
                    corners = [(ci, cj), (ci, cj + 1), (ci + 1, cj), (ci + 1, cj + 1)]
                    fl = {c: _floor(T0[c[0]][c[1]]) for c in corners}
                    lg = {c: core.sv_log10(SV(t=fl[c])).term() for c in corners}
                    blend = (1 - tx) * (1 - ty) * lg[corners[0]] + (1 - tx) * ty * lg[corners[1]] + tx * (1 - ty) * lg[corners[2]] + tx * ty * lg[corners[3]]
                    ref = core.exp10(SV(t=blend)).term()
                    parts.append((incell, ref, fl, corners))
            claims["value == 10 ** bilinear(log10 floor(T)) (independent reference blend)"] = z3.And(*[z3.Implies(c, p == ref) for c, ref, _f, _c in parts])
            # min / max of the four surrounding nodes: staged proof (DESIGN 1.8)
            if not cells_log:
                cells_log = [{"cell": (0, 0), "weights": [SV(c=Fr(0)), SV(c=Fr(0))]}]
                claims["the interpolator stub was consulted for this event"] = z3.BoolVal(False)
            cell = cells_log[0]
            ci, cj = cell["cell"]
            tx, ty = cell["weights"][0].term(), cell["weights"][1].term()
            cs = [(ci, cj), (ci, cj + 1), (ci + 1, cj), (ci + 1, cj + 1)]
            # the code's own terms: floored table entries and their logarithms as handed to the interpolator
            flc = {c: data1.a[c].term() for c in cs}
            lgc = {c: calls[0]["values"].a[c].term() for c in cs}
            blend_code = r1[0].e10
            unit = z3.And(tx >= 0, tx <= 1, ty >= 0, ty <= 1)
            lemmas.append(("interpolation weights in [0,1]", unit))
            for k in cs:
                lemmas.append(harness.GenLemma(f"blend >= log-node {k} if it is the smallest", z3.Implies(z3.And(*[lgc[k] <= lgc[k2] for k2 in cs]), blend_code >= lgc[k]),
                                               premises=[unit], abstract=[tx, ty]))
                lemmas.append(harness.GenLemma(f"blend <= log-node {k} if it is the largest", z3.Implies(z3.And(*[lgc[k] >= lgc[k2] for k2 in cs]), blend_code <= lgc[k]),
                                               premises=[unit], abstract=[tx, ty]))
            claims["value >= min of the four surrounding nodes"] = z3.Or(*[z3.And(z3.And(*[flc[k] <= flc[k2] for k2 in cs]), p >= flc[k]) for k in cs])
            claims["value <= max of the four surrounding nodes"] = z3.Or(*[z3.And(z3.And(*[flc[k] >= flc[k2] for k2 in cs]), p <= flc[k]) for k in cs])
            for i in range(nE):
                for j in range(nB):
                    claims[f"reproduces the (floored) table at node ({i},{j})"] = z3.Implies(z3.And(le == E[i], bq == B[j]), p == _floor(T0[i][j]))
        if where == "below":
            r3 = T.tau_exit_prob(SymArray([SV(t=B[0])]), SymArray([SV(t=le)]))
            claims["angle below the tabulated minimum takes the minimum-angle value"] = p == r3[0].term()
        if where == "above":
            claims["angle above the tabulated maximum takes the eps32 (1.19e-7) floor"] = p == core.rv(EPS32)
        inputs = {"logE": le, "beta": be}
        inputs.update({f"E{i}": E[i] for i in range(nE)})
        inputs.update({f"B{j}": B[j] for j in range(nB)})
        inputs.update({f"T{i}{j}": T0[i][j] for i in range(nE) for j in range(nB)})
        return harness.Out(claims=claims, inputs=inputs, observe={"p": r1}, lemmas=lemmas)

    return run


def batch_run(N):
    """N events: per-event results equal single-event results for every clamp pattern (row alignment)."""

    def run(C):
        ns = _load()
        g, E, B = mk_patch(C, 2, 2)
        T = object.__new__(ns["Taus"])
        T.pexit_grid = g
        betas = symarr([f"beta{i}" for i in range(N)])
        les = symarr([f"logE{i}" for i in range(N)])
        for i in range(N):
            C.assume(z3.Real(f"logE{i}") >= E[0], z3.Real(f"logE{i}") <= E[1], z3.Real(f"beta{i}") >= 0)
        pristine = g.data.copy()
        r = T.tau_exit_prob(betas, les)
        claims = {"one value per event": z3.BoolVal(r.shape == (N,))}
        for i in range(N):
            g.data = pristine.copy()  # same table state for the comparison call (history independence is a separate obligation)
            s = T.tau_exit_prob(betas[i:i + 1], les[i:i + 1])
            claims[f"event {i}: batch value == single-event value"] = r[i].term() == s[0].term()
        inputs = {f"beta{i}": z3.Real(f"beta{i}") for i in range(N)}
        return harness.Out(claims=claims, inputs=inputs)

    return run


def isolation_run():
    """Two Taus objects with different tables, used alternately: every call answers from the object's own table."""

    def run(C):
        ns = _load()
        g1, E, B = mk_patch(C, 2, 2, "T")
        g2, _E, _B = mk_patch(C, 2, 2, "S")
        T1, T2 = object.__new__(ns["Taus"]), object.__new__(ns["Taus"])
        T1.pexit_grid, T2.pexit_grid = g1, g2
        le, be = z3.Real("logE"), z3.Real("beta")
        C.assume(le >= E[0], le <= E[1], be >= B[0], be <= B[1])
        args = lambda: (SymArray([SV(t=be)]), SymArray([SV(t=le)]))  # noqa
        a1 = T1.tau_exit_prob(*args())[0].term()
        b1 = T2.tau_exit_prob(*args())[0].term()
        a2 = T1.tau_exit_prob(*args())[0].term()

        def ref(pre):
            tx, ty = (le - E[0]) / (E[1] - E[0]), (be - B[0]) / (B[1] - B[0])
            lg = {(i, j): core.sv_log10(SV(t=_floor(z3.Real(f"{pre}{i}{j}")))).term() for i in range(2) for j in range(2)}
            blend = (1 - tx) * (1 - ty) * lg[(0, 0)] + (1 - tx) * ty * lg[(0, 1)] + tx * (1 - ty) * lg[(1, 0)] + tx * ty * lg[(1, 1)]
            return core.exp10(SV(t=blend)).term()

        claims = {
            "first object answers from its own table": a1 == ref("T"),
            "a second object with a different table answers from ITS table (no state shared between objects)": b1 == ref("S"),
            "the first object is unaffected by the use of the second": a2 == ref("T"),
        }
        return harness.Out(claims=claims, inputs={"logE": le, "beta": be})

    return run


def outside_run(which, where="inside"):
    def run(C):
        ns = _load()
        g, E, B = mk_patch(C, 2, 2)
        T = object.__new__(ns["Taus"])
        T.pexit_grid = g
        le, be = z3.Real("logE"), z3.Real("beta")
        if where == "inside":
            C.assume(be >= B[0], be <= B[1])
        else:
            C.assume(be >= 0, be < B[0])
        return _outside_body(C, T, E, le, be, which, where)

    return run


def _outside_body(C, T, E, le, be, which, where):
    if True:
        if True:
            pass
    C.assume(le < E[0] if which == "below" else le > E[1])
    try:
        T.tau_exit_prob(SymArray([SV(t=be)]), SymArray([SV(t=le)]))
        raised = False
    except ValueError:
        raised = True
    return harness.Out(claims={f"energy {which} the table range is rejected with an error (angle {where} the table)": z3.BoolVal(raised)}, inputs={"logE": le, "beta": be})


def job_main(nE, nB, where, tier):
    return harness.run_job(f"tau_exit_prob(patch {nE}x{nB}, beta {where})", main_run(nE, nB, where), timeout_ms=60000 if tier == "quick" else 600000, second=(tier == "thorough"))


def job_batch(N, tier):
    return harness.run_job(f"tau_exit_prob(batch N={N})", batch_run(N), timeout_ms=60000, second=(tier == "thorough"))


def job_outside(which, tier, where="inside"):
    return harness.run_job(f"tau_exit_prob(energy {which}, angle {where})", outside_run(which, where), timeout_ms=30000)


def job_isolation(tier):
    return harness.run_job("tau_exit_prob (two objects, different tables)", isolation_run(), timeout_ms=60000, second=(tier == "thorough"))


def job_pexit(version):
    return harness.plain_job(f"data nu2tau_pexit.{version}", lambda: tables.check_pexit_table(version))


def job_init(tier):
    """the exit-probability (and CDF) table loaded by the real Taus.__init__ is the configured version's file (C04's job)"""
    from props import c04 as P4

    return P4.job_init(tier)


def jobs(tier, seed):
    out = [("init", "job_init", {"tier": tier})]
    for w in ("inside", "below", "above"):
        out.append((f"m{w}", "job_main", {"nE": 2, "nB": 2, "where": w, "tier": tier}))
    if tier == "thorough":
        for w in ("inside", "below"):
            out.append((f"m3{w}", "job_main", {"nE": 3, "nB": 2, "where": w, "tier": tier}))
    out.append(("b", "job_batch", {"N": 2, "tier": tier}))
    out.append(("ob", "job_outside", {"which": "below", "tier": tier}))
    out.append(("oa", "job_outside", {"which": "above", "tier": tier}))
    out.append(("obl", "job_outside", {"which": "below", "tier": tier, "where": "below"}))
    out.append(("oal", "job_outside", {"which": "above", "tier": tier, "where": "below"}))
    out.append(("iso", "job_isolation", {"tier": tier}))
    for v in ("1", "2", "3"):
        out.append((f"pexit{v}", "job_pexit", {"version": v}))
    return out


def _real(m, nE=2, nB=2, calls=1):
    import numpy as np

    from nuspacesim.simulation.taus.taus import Taus
    from nuspacesim.utils.grid import NssGrid

    g = lambda k, d: m.get(k, d) if m.get(k) is not None else d  # noqa
    E = np.array([g(f"E{i}", 6.0 + i) for i in range(nE)], dtype=float)
    B = np.array([g(f"B{j}", 0.1 + 0.1 * j) for j in range(nB)], dtype=float)
    D = np.array([[g(f"T{i}{j}", 0.1) for j in range(nB)] for i in range(nE)], dtype=float)
    T = object.__new__(Taus)
    T.pexit_grid = NssGrid(D.copy(), [E, B], ["log_e_nu", "beta_rad"])
    out = []
    with np.errstate(all="ignore"):
        for _ in range(calls):
            out.append(T.tau_exit_prob(np.array([g("beta", B[0])], dtype=float), np.array([g("logE", E[0])], dtype=float)))
    return out, E, B, D, T


def replay(v):
    import numpy as np

    job, ob = v.get("job", ""), v["obligation"]
    if job.startswith("Taus.__init__"):
        from props import c04 as P4

        return P4.replay(v)
    if job.startswith("data "):
        return tables.replay_data(v)
    m = v.get("model") or {}
    if job.startswith("tau_exit_prob (two objects"):
        from scipy.interpolate import RegularGridInterpolator as RGI

        from nuspacesim.config import NssConfig
        from nuspacesim.simulation.taus.taus import Taus

        rng = np.random.default_rng(4)
        n = 500
        betas, les = rng.uniform(0.01, 0.7, n), rng.uniform(6.1, 11.9, n)
        objs = []
        for ver in ("3", "1", "3", "2"):
            cfg = NssConfig()
            cfg.simulation.tau_shower.table_version = ver
            T = Taus(cfg)
            own = np.where(np.asarray(T.pexit_grid.data) <= 0, np.finfo(np.float32).eps, np.asarray(T.pexit_grid.data)).copy()
            objs.append((ver, T, RGI([np.asarray(a) for a in T.pexit_grid.axes], np.log10(own))))
        for ver, T, rgi in objs:
            got = T.tau_exit_prob(betas.copy(), les.copy())
            ref = 10 ** rgi((les, betas))
            nbad = int(np.sum(np.abs(got - ref) > 1e-9 * np.abs(ref)))
            if nbad:
                return {"reproduced": True, "key": "tau_exit_prob: state shared between Taus objects (a later object answers from another object's table)",
                        "detail": f"objects for table versions 3, 1, 3, 2 used in that order: version {ver} disagrees with its own table at {nbad} of {n} points"}
        return {"reproduced": False, "key": None, "detail": "each real object answers from its own table"}
    if job.startswith("tau_exit_prob(energy"):
        from nuspacesim.config import NssConfig
        from nuspacesim.simulation.taus.taus import Taus

        T = Taus(NssConfig())
        le = 5.5 if "energy below" in job else 12.4
        b = 0.3 if "angle inside" in job else 0.0008
        try:
            r = T.tau_exit_prob(np.array([0.3, b]), np.array([8.0, le]))
        except Exception:
            return {"reproduced": False, "key": None, "detail": "real code raises"}
        return {"reproduced": True, "key": "tau_exit_prob: an out-of-table energy is not rejected", "detail": f"log10(E) = {le} at beta = {b} rad returned {r.tolist()} instead of raising"}
    if not job.startswith("tau_exit_prob(patch"):
        return {"reproduced": False, "key": None, "detail": "no numeric replay"}
    nE, nB = int(job.split("patch ")[1][0]), int(job.split("patch ")[1][2])
    try:
        out, E, B, D, T = _real(m, nE, nB, calls=2)
    except Exception as ex:
        return {"reproduced": True, "key": f"tau_exit_prob: {type(ex).__name__}", "detail": f"raised {ex} at {m}"}
    p, p2 = float(out[0][0]), float(out[1][0])
    fl = np.where(D <= 0, np.finfo(np.float32).eps, D)
    le, be = m.get("logE", E[0]), m.get("beta", B[0])
    bad = None
    if "(0, 1]" in ob and not (0 < p <= 1 + 1e-12):
        bad = f"exit probability {p} outside (0,1]"
    elif "history independence" in ob and abs(p - p2) > 1e-12 * abs(p):
        bad = f"first call {p}, second call {p2}"
    elif "eps32" in ob and abs(p - float(np.finfo(np.float32).eps)) > 1e-12:
        bad = f"value above the range is {p}, not eps32"
    else:
        from scipy.interpolate import RegularGridInterpolator as RGI

        bq = min(max(be, B[0]), B[-1])
        if be <= B[-1]:
            ref = 10 ** float(RGI((E, B), np.log10(fl))((le, bq)))
            if ("bilinear" in ob or "minimum-angle" in ob) and abs(p - ref) > 1e-9 * abs(ref):
                bad = f"value {p}, reference 10**bilinear(log10 floor(T)) = {ref}"
            if ("min of" in ob or "max of" in ob or "between" in ob):
                i = min(max(np.searchsorted(E, le) - 1, 0), nE - 2)
                j = min(max(np.searchsorted(B, bq) - 1, 0), nB - 2)
                c = fl[i:i + 2, j:j + 2]
                if p < c.min() * (1 - 1e-9) or p > c.max() * (1 + 1e-9):
                    bad = f"value {p} outside [{c.min()}, {c.max()}]"
            if "nodes" in ob:
                for i in range(nE):
                    for j in range(nB):
                        if le == E[i] and bq == B[j] and abs(p - fl[i, j]) > 1e-9 * fl[i, j]:
                            bad = f"node ({i},{j}): value {p}, table {fl[i,j]}"
    if bad:
        return {"reproduced": True, "key": "tau_exit_prob: " + ob.split("/", 1)[-1], "detail": bad + f" at {m}"}
    return {"reproduced": False, "key": None, "detail": f"real code gives {p}: predicate holds"}


def validate(seed, tier):
    def sampler(rng):
        v = {"E0": 6.0, "E1": 6.25, "B0": 0.1, "B1": 0.15}
        for i in range(2):
            for j in range(2):
                v[f"T{i}{j}"] = float(rng.choice([rng.uniform(1e-6, 1.0), 0.0, -1.0], p=[0.8, 0.1, 0.1]))
        v["logE"] = float(rng.uniform(6.0, 6.25))
        v["beta"] = float(rng.uniform(0.1, 0.15))
        return v

    def real(v):
        out, *_ = _real(v)
        return {"p": out[0]}

    return harness.validate(main_run(2, 2, "inside"), sampler, real, 50, seed, rel=1e-8)


MANIFEST_ENTRY = {
    "level_text": "Bounded symbolic execution of the real Taus.tau_exit_prob on a table patch with symbolic axes and arbitrary real entries <= 1 (non-positive allowed): nlsat proves value == 10**bilinear(log10 floor(T)) against an independently written blend, node reproduction, min/max of the four surrounding nodes, (0,1], both clamps, interpolator axis order and rejection of out-of-table energies, batch/single agreement for every clamp pattern, and history independence as an inductive step from an arbitrary table state (table after a call == floor(T), floor idempotent, repeated call equal). All shipped exit-probability tables are checked row by row (<= 1, >= 0, axes increasing and equal to the CDF table's).",
    "level_note": "Includes C04's Taus.__init__ wiring job (the exit-probability table loaded is the configured version's file). REAL arithmetic with log10/10** as Ackermannised strictly monotone mutual inverses; RegularGridInterpolator is a reference stub; patch sizes 2x2 (quick), 3x2 (thorough).",
    "technique": "symbolic execution of the real NumPy source + z3 qfnra-nlsat (Ackermannised log10/exp10); per-row z3 table queries",
}
