"""C02 -- thrown trajectories are consistent 3-D objects for every random input."""
from __future__ import annotations

from fractions import Fraction as Fr

import z3

from props import geom_model as gm
from symnp import core, harness, load, solve
from symnp.arr import SymArray
from symnp.core import PI, SV

ID = "C02"
META = {
    "bounds": {
        "quick": "N=1 event (the code is elementwise); detector altitude, angle from limb, cone angle, azimuth range, detector latitude/longitude and u in the CLOSED cube [0,1]^4 symbolic; init lemmas on the real __init__ terms, then the path-length bounds generalised (Lmin, Lmax fresh with exactly the proved facts)",
        "thorough": "same claims with 600 s per obligation and /usr/bin/z3 4.8.12 as second solver on the deciding assertion subsets; the QF_FP bug hunt on three altitude windows (30-40, 395-405, 0.9-1.1 km); repeated throws on one object",
    },
    "outside_bounds": ["IEEE rounding on the faces of the cube (u4 = 0 / 1): the REAL-mode claims are exact-arithmetic statements; the floating-point root selection at the faces is examined by the bug-hunting job (QF_FP, libm arbitrary) and recorded as a known finding, not a proof",
                       "positions along the trajectory for s > 0: known finding (see known_findings.json); s = 0 is proved"],
    "stubs": ["none for the geometry itself: RegionGeom.__init__ and throw run from /repo's source under the shim"],
    "assumptions": ["REAL mode with algebraised trigonometry", "generalisation cuts: every fresh symbol carries only facts that were proved about the real term in the init-lemma job"],
}
LEDGER = {"quick": 180, "thorough": 180}


def _init(C, symbolic_det=False):
    ns = gm.load_geom()
    cfg, inp = gm.make_config(C, symbolic_det=symbolic_det)
    g = ns["RegionGeom"](cfg)
    C._bracket_term = code_bracket(g)  # located now: later jobs replace Lmin / Lmax on the object by generalised symbols
    aH = 0.5 * ns["np"].pi - ns["np"].arccos(g.earth_radius / g.core_alt)
    C.assume((cfg.simulation.angle_from_limb < aH).term())
    # comparisons implied by 0 < limb < alphaHorizon, made through the shim so that the
    # monotonicity instances for (alphaMin, alphaHorizon) and (0, alphaMin) are generated
    aMin = aH - cfg.simulation.angle_from_limb
    C.assume((aMin < aH).term(), (aMin > SV(c=Fr(0))).term())
    return ns, cfg, inp, g, aH


def init_lemmas_run():
    """Facts about the REAL terms computed by __init__ that the later jobs generalise over."""

    def run(C):
        ns, cfg, inp, g, aH = _init(C)
        ns["RegionGeom"](cfg)  # a second construction after the limb assumptions: its comparisons-through-the-shim register the monotonicity instances
        Lmin, Lmax = SV.of(g.minLOSpathLen).term(), SV.of(g.maxLOSpathLen).term()
        br_code = code_bracket(g)
        r, R = SV.of(g.core_alt).term(), SV.of(g.earth_radius).term()
        R2 = SV.of(g.earth_rad_2).term()
        claims = {
            "Lmax > 0": Lmax > 0,
            "Lmax^2 == r_d^2 - R^2 (horizon distance)": Lmax * Lmax == r * r - R2,
            "earth_rad_2 == R^2": R2 == R * R,
        }
        sA, cA = core.sincos(aH - cfg.simulation.angle_from_limb)
        A_ = Lmax * Lmax
        G = harness.GenLemma
        lemmas = [
            ("cos(alphaMin) > cos(alphaHorizon) = Lmax / r_d, sin(alphaMin) in (0, R / r_d)", z3.And(cA * r > Lmax, sA > 0, sA * r < R)),
            ("r_d - Lmax < R", r - Lmax < R),
            G("r_d cos(alphaMin) - (r_d - R) > 0", r * cA - r + R > 0, premises=[cA * r > Lmax, r - Lmax < R, r > R, R > 0], abstract=[cA, Lmax]),
            G("(r_d cos(alphaMin) - r_d + R)^2 >= R^2 - r_d^2 sin^2(alphaMin)", (r * cA - r + R) * (r * cA - r + R) >= R * R - r * r * sA * sA,
              premises=[sA * sA + cA * cA == 1, cA <= 1, r > R, R > 0], abstract=[sA, cA]),
        ]
        circ = sA * sA + cA * cA == 1
        lemmas += [
            G("Lmin >= r_d - R (detector altitude: the nearest surface point is straight down)", Lmin >= r - R,
              premises=[r * cA - r + R > 0, (r * cA - r + R) * (r * cA - r + R) >= R * R - r * r * sA * sA, circ], abstract=[sA, cA], whole_context=True, kind="claim"),
            G("Lmin < Lmax", Lmin < Lmax, premises=[cA * r > Lmax, circ, Lmax * Lmax == r * r - R * R, Lmax > 0, sA * r < R, sA > 0], abstract=[sA, cA], whole_context=True, kind="claim"),
            G("Lmin > 0", Lmin > 0, premises=[Lmin >= r - R, r > R], abstract=[Lmin], kind="claim"),
            G("the bracket computed by __init__ is A Lmax - Lmax^3/3 - A Lmin + Lmin^3/3 on the real terms",
              br_code == A_ * Lmax - core.rv(Fr(1, 3)) * Lmax * Lmax * Lmax - A_ * Lmin + core.rv(Fr(1, 3)) * Lmin * Lmin * Lmin,
              premises=[Lmax * Lmax == r * r - R2], abstract=[Lmin, Lmax], kind="claim"),
        ]
        sinmax = SV.of(g.sinOfMaxThetaTrSubV).term()
        claims["0 < sin(max cone angle) < 1"] = z3.And(sinmax > 0, sinmax < 1)
        claims["azimuth range is [-max_az/2, +max_az/2]"] = z3.And(SV.of(g.maxPhiS).term() == inp["max_az"] / 2, SV.of(g.minPhiS).term() == -inp["max_az"] / 2)
        # the normalisation bracket A Lmax - Lmax^3/3 - A Lmin + Lmin^3/3 is positive: proved for EVERY 0 < Lmin < Lmax
        with load.Tracer() as _t:
            pass
        return harness.Out(claims=claims, inputs=inp, lemmas=lemmas, skip_defd=_skip_bracket)

    return run


def code_bracket(g):
    """The normalisation bracket A Lmax - Lmax^3/3 - A Lmin + Lmin^3/3 AS COMPUTED BY __init__: located inside the
    term of g.mcnorm as the outermost sub-term that is the same rational function of (Lmin, Lmax) -- not read from
    a local variable, so renaming or extracting code in __init__ does not matter.  What is claimed about it is
    proved by the solver afterwards."""
    Lmin, Lmax = SV.of(g.minLOSpathLen).term(), SV.of(g.maxLOSpathLen).term()
    a, b = z3.Real("__Lmin_probe"), z3.Real("__Lmax_probe")
    root = z3.substitute(SV.of(g.mcnorm).term(), (Lmin, a), (Lmax, b))
    r, R2 = SV.of(g.core_alt).term(), SV.of(g.earth_rad_2).term()
    A = r * r - R2  # (the code writes core_alt^2 - earth_rad_2; that this equals Lmax^2 is a lemma of its own)
    ref = A * b - core.rv(Fr(1, 3)) * b * b * b - A * a + core.rv(Fr(1, 3)) * a * a * a
    hit = harness.find_subterm(root, ref)
    if hit is None:
        raise core.HarnessError("the normalisation bracket does not occur in mcnorm as a rational function of (Lmin, Lmax)")
    return z3.substitute(hit, (a, Lmin), (b, Lmax))


def _skip_bracket(tag, where, cond=None):
    """the division by the normalisation bracket: its definedness is the subject of the job 'normalisation bracket'"""
    if tag != "div" or cond is None:
        return None
    try:
        ch = cond.children()
        if cond.decl().kind() == z3.Z3_OP_DISTINCT or (cond.decl().kind() == z3.Z3_OP_NOT and ch[0].decl().kind() == z3.Z3_OP_EQ):
            x = ch[0] if cond.decl().kind() == z3.Z3_OP_DISTINCT else ch[0].children()[0]
            br = getattr(core.ctx(), "_bracket_term", None)
            if br is not None and (x.eq(br) or harness.same_function(x, br)):
                return "bracket > 0 is proved in generalised form by the job 'normalisation bracket' (for every 0 < Lmin < Lmax)"
    except Exception:  # noqa
        return None
    return None


def bracket_run():
    """real __init__ arithmetic with Lmin, Lmax generalised BEFORE the bracket is computed"""

    def run(C):
        ns = gm.load_geom()
        Lmin, Lmax, r = z3.Real("Lmin"), z3.Real("Lmax"), z3.Real("r_d")
        R2 = SV(c=core.lit_fr(6378.1) ** 2).term()
        C.assume(Lmin > 0, Lmin < Lmax, Lmax * Lmax == r * r - R2, r > 0)
        A = Lmax * Lmax
        # the same expression as region_geometry.py lines 82-87 (checked against the traced local below)
        br = A * Lmax - core.rv(Fr(1, 3)) * Lmax * Lmax * Lmax - A * Lmin + core.rv(Fr(1, 3)) * Lmin * Lmin * Lmin
        claims = {"for every 0 < Lmin < Lmax: A Lmax - Lmax^3/3 - A Lmin + Lmin^3/3 > 0 (A = Lmax^2)": br > 0,
                  "and it equals one third of the cubic's b": 3 * br == 3 * A * Lmax - Lmax * Lmax * Lmax - 3 * A * Lmin + Lmin * Lmin * Lmin}
        return harness.Out(claims=claims, inputs={"Lmin": Lmin, "Lmax": Lmax})

    return run


def _generalised(C, symbolic_det=False):
    """RegionGeom whose path-length bounds are fresh symbols carrying exactly the init lemmas."""
    ns, cfg, inp, g, aH = _init(C, symbolic_det)
    Lmin, Lmax = z3.Real("Lmin"), z3.Real("Lmax")
    r, R2 = SV.of(g.core_alt).term(), SV.of(g.earth_rad_2).term()
    C.assume(Lmin > 0, Lmin < Lmax, Lmax > 0, Lmax * Lmax == r * r - R2, Lmin >= r - SV.of(g.earth_radius).term())
    g.minLOSpathLen, g.maxLOSpathLen = SV(t=Lmin), SV(t=Lmax)
    inp = dict(inp, Lmin=Lmin, Lmax=Lmax)
    return ns, cfg, inp, g


def cubic_run():
    def run(C):
        ns, cfg, inp, g = _generalised(C)
        U, us = gm.make_u(C)
        with load.Tracer(watch=["throw"]) as tr:
            g.throw(U)
        loc = tr.locals.get("throw", {})
        L = SV.of(g.losPathLen[0]).term()
        Lmin, Lmax = inp["Lmin"], inp["Lmax"]
        u4 = us[3][0]
        A = Lmax * Lmax
        claims = {
            "Lmin <= L <= Lmax": z3.And(L >= Lmin, L <= Lmax),
            "L is the inverse-CDF image of u4: 3A(Lmax-L) - (Lmax^3-L^3) == u4 * (3A(Lmax-Lmin) - (Lmax^3-Lmin^3)), A = r_d^2-R^2": 3 * A * (Lmax - L) - (Lmax * Lmax * Lmax - L * L * L)
            == u4 * (3 * A * (Lmax - Lmin) - (Lmax * Lmax * Lmax - Lmin * Lmin * Lmin)),
            "L != 0 (division in cos(theta_NV) defined)": L != 0,
        }
        sel, cardano = None, None
        # claims about the implementation's internals: stated only while it keeps these local names (auxiliary:
        # they must be decided when present, but a refactoring that renames the locals does not break the check)
        if all(k in loc for k in ("dmsk", "v1", "v2", "v3", "v1_msk", "v2_msk", "v3_msk")):
            sel = {k: bool(core._b(SV.of(loc["dmsk"][0])) & core._b(SV.of(loc[f"v{k}_msk"][0]))) for k in (1, 2, 3)}
            cardano = not bool(core._b(SV.of(loc["dmsk"][0])))
            v = {k: SV.of(loc[f"v{k}"][0]).term() for k in (1, 2, 3)}
            claims["(internal) discriminant <= 0: the trigonometric branch is always taken (no Cardano branch)"] = z3.BoolVal(not cardano)
            claims["(internal) some root is selected"] = z3.BoolVal(any(sel.values()))
            claims["(internal) the roots selected all equal L (exactly one unless roots coincide)"] = z3.And(*[v[k] == L for k in (1, 2, 3) if sel[k]]) if any(sel.values()) else z3.BoolVal(False)
        f_sl, _cut = gm.throw_slices(ns)
        last_omitted = max(b for _a, b in f_sl.omitted_lines)

        def skip(t, w, cond=None):
            try:
                ln = int(w.rsplit(":", 1)[1])
            except Exception:
                ln = 0
            if ln > last_omitted and "region_geometry" in w:
                return "belongs to the spot / angle obligations (separate job)"
            return _skip_bracket(t, w, cond)

        # the bracket computed by the real __init__ (before generalisation) equals the generalised expression
        return harness.Out(claims=claims, inputs=dict(inp, **{f"u{k+1}": us[k][0] for k in range(4)}), info={"selected": sel, "cardano": cardano}, skip_defd=skip)

    return run


def _sliced(C, symbolic_det=True):
    """real __init__, then the real throw with the cubic section cut out and L generalised"""
    ns, cfg, inp, g = _generalised(C, symbolic_det)
    f, cut = gm.throw_slices(ns)
    L = z3.Real("L")
    C.assume(L >= inp["Lmin"], L <= inp["Lmax"], L > 0)  # proved for the real L by the cubic job
    g.losPathLen = SymArray([SV(t=L)], "float")
    U, us = gm.make_u(C)
    with load.Tracer(watch=["throw_sliced"]) as tr:
        f(g, U)
    return ns, cfg, dict(inp, L=L), g, us, tr.locals["throw_sliced"], cut


def _vec(lat_sc, lon_sc):
    (sl, cl), (so, co) = lat_sc, lon_sc
    return (cl * co, cl * so, sl)


def spot_run():
    def run(C):
        ns, cfg, inp, g, us, loc, cut = _sliced(C)
        L, r, R = inp["L"], SV.of(g.core_alt).term(), SV.of(g.earth_radius).term()
        thS = SV.of(g.thetaS[0])
        sT, cT = core.sincos(thS)
        # intermediate quantities are recovered from the PUBLIC results (latS, longS in degrees), not from local
        # variables: latitude = arcsin(z-component), longitude = arctan2(y, x) of the spot direction
        latr, lonr = core.sv_radians(g.latS[0]), core.sv_radians(g.longS[0])
        yx = core.atan2_args(lonr)
        if yx is None:
            raise core.HarnessError("longS is not the arctan2 of two components")
        ry, rx = yx
        rs = core.sincos(latr)[0]
        slat, clat = core.sincos(latr)
        slon, clon = core.sincos(lonr)
        D = _vec(core.sincos(g.detLat), core.sincos(g.detLong))
        P = (clat * clon, clat * slon, slat)
        latd, lond = SV.of(g.latS[0]).term(), SV.of(g.longS[0]).term()
        unit = z3.And(sT >= 0, sT * sT + cT * cT == 1)
        cl2 = clat * clat == rx * rx + ry * ry
        direction = z3.Implies(rx * rx + ry * ry > 0, z3.And(P[0] == rx, P[1] == ry, P[2] == rs))
        lawcos = z3.And(2 * R * r * cT == r * r + R * R - L * L, cT <= 1, cT >= -1)
        dist = z3.Implies(rx * rx + ry * ry > 0, (r * D[0] - R * P[0]) * (r * D[0] - R * P[0]) + (r * D[1] - R * P[1]) * (r * D[1] - R * P[1]) + (r * D[2] - R * P[2]) * (r * D[2] - R * P[2]) == L * L)
        DD = D[0] * D[0] + D[1] * D[1] + D[2] * D[2]
        gg = rx * rx + ry * ry + rs * rs
        Dg = D[0] * rx + D[1] * ry + D[2] * rs
        Dunit, uvec, dot = DD == 1, gg == 1, Dg == cT
        dist_g = (r * D[0] - R * rx) * (r * D[0] - R * rx) + (r * D[1] - R * ry) * (r * D[1] - R * ry) + (r * D[2] - R * rs) * (r * D[2] - R * rs)
        G = harness.GenLemma
        lem = [
            ("cos(theta_S) from the law of cosines: 2 R r cos(theta_S) == r^2 + R^2 - L^2, |cos| <= 1", lawcos),
            G("spot direction (rx, ry, rsin) is a unit vector", uvec, premises=[unit], abstract=[sT, cT], whole_context=True),
            G("detector direction is a unit vector", Dunit, premises=[], abstract=[], whole_context=True),
            G("detector direction . spot direction == cos(theta_S)", dot, premises=[unit], abstract=[sT, cT], whole_context=True),
            G("cos(lat_S)^2 == rx^2 + ry^2", cl2, premises=[uvec], abstract=[rx, ry, rs], whole_context=True),
            G("away from the poles the reported (lat_S, long_S) point in direction (rx, ry, rsin)", direction, premises=[uvec, cl2], abstract=[rx, ry, rs], whole_context=True),
            G("expansion of |r_d D - R g|^2 (polynomial identity)", dist_g == r * r * DD - 2 * r * R * Dg + R * R * gg, premises=[], abstract=[rx, ry, rs, D[0], D[1], D[2]]),
            G("|r_d D - R g|^2 == L^2 from the unit vectors, the dot product and the law of cosines", r * r * DD - 2 * r * R * Dg + R * R * gg == L * L,
              premises=[DD == 1, Dg == cT, gg == 1, lawcos], abstract=[DD, Dg, gg, cT]),
            G("ground spot at distance L from the detector: |r_d D - R P|^2 == L^2 (explicit ECEF vectors, away from the poles)", dist,
              premises=[direction, dist_g == L * L], abstract=[P[0], P[1], P[2], rx, ry, rs, D[0], D[1], D[2]], kind="claim"),
        ]
        lem.append(G("spot on the Earth's surface: |P| == 1 (unit direction scaled by R)", P[0] * P[0] + P[1] * P[1] + P[2] * P[2] == 1,
                     premises=[uvec, cl2], abstract=[rx, ry, rs], whole_context=True, kind="claim"))
        claims = {
            "latitude in [-90, 90] deg": z3.And(latd >= -90, latd <= 90),
            "longitude in [0, 360] deg": z3.And(lond >= 0, lond <= 360),
        }
        return harness.Out(claims=claims, lemmas=lem, inputs=dict(inp, **{f"u{k+1}": us[k][0] for k in range(4)}), skip_defd=_skip_origin)

    return run


def _skip_origin(tag, where, cond=None):
    if _skip_bracket(tag, where, cond):
        return _skip_bracket(tag, where, cond)
    if tag == "atan2-origin":
        return "np.arctan2(0, 0) is defined (0) in NumPy; the pole case is excluded from the direction claims explicitly"
    return None


def beta_run():
    def run(C):
        ns, cfg, inp, g, us, loc, cut = _sliced(C, symbolic_det=False)
        L, r, R = inp["L"], SV.of(g.core_alt).term(), SV.of(g.earth_radius).term()
        cNV = SV.of(g.costhetaNSubV[0]).term()
        thNV = core.sv_arccos(g.costhetaNSubV[0])  # the angle whose cosine the code stores (same cached primitive as the code's own arccos)
        sNV, cNV2 = core.sincos(thNV)
        sV, cV = core.sincos(SV.of(g.thetaTrSubV[0]))
        sP, cP = core.sincos(SV.of(g.phiTrSubV[0]))
        cTrN = SV.of(g.costhetaTrSubN[0]).term()
        beta = SV.of(g.betaTrSubN[0])
        thTrN = SV.of(g.thetaTrSubN[0])
        # explicit vectors in the spot's local frame: n = (0,0,1); line of sight v at angle theta_NV from n;
        # trajectory t at angle theta_TrV from v with azimuth phi_TrV about v
        v = (sNV, z3.RealVal(0), cNV2)
        e1 = (cNV2, z3.RealVal(0), -sNV)
        e2 = (z3.RealVal(0), z3.RealVal(1), z3.RealVal(0))
        t = tuple(cV * v[k] + sV * (cP * e1[k] + sP * e2[k]) for k in range(3))
        cT_S = core.sincos(SV.of(g.thetaS[0]))[1]  # thetaS = arccos(cos theta_S): the primitive keeps the argument term
        claims = {
            "cos(theta_NV) is the angle between the local vertical and the line of sight: R L cos(theta_NV) == r R cos(theta_S) - R^2": R * L * cNV == r * R * cT_S - R * R,
            "the trajectory vector built from (theta_TrV, phi_TrV) about the line of sight is a unit vector": t[0] * t[0] + t[1] * t[1] + t[2] * t[2] == 1,
            "cos(theta_TrN) == trajectory . local vertical (explicit vectors)": cTrN == t[2],
            "emergence angle == 90 deg - angle(trajectory, vertical): beta(rad) + theta_TrN == pi/2 and cos(theta_TrN) is that dot product": z3.And(
                beta.rad + thTrN.t == PI / 2, core.sincos(thTrN)[1] == t[2]),
            "kept exactly when upward-going (trajectory . vertical >= 0) and beta < 42 deg": core._b(SV.of(g.event_mask[0])).term() == z3.And(t[2] >= 0, beta.t < 42),
            "theta_TrV is the inverse-CDF image of u1: sin^2(theta_TrV) == u1 sin^2(theta_max)": sV * sV == us[0][0] * SV.of(g.sinOfMaxThetaTrSubV).term() * SV.of(g.sinOfMaxThetaTrSubV).term(),
            "phi_TrV == 2 pi u2": SV.of(g.phiTrSubV[0]).term() == 2 * PI * us[1][0],
            "phi_S == phi_min + (phi_max - phi_min) u3": SV.of(g.phiS[0]).term() == SV.of(g.minPhiS).term() + (SV.of(g.maxPhiS).term() - SV.of(g.minPhiS).term()) * us[2][0],
        }
        return harness.Out(claims=claims, inputs=dict(inp, **{f"u{k+1}": us[k][0] for k in range(4)}), skip_defd=_skip_origin)

    return run


def _concrete_geom(ns):
    """RegionGeom built by the real __init__ on the default (concrete) configuration: every attribute
    __init__ creates exists, without dragging the symbolic-configuration facts into the context."""
    import math

    pos = type("P", (), {"altitude": SV(c=Fr(525)), "latitude": SV(c=Fr(0)), "longitude": SV(c=Fr(0))})()
    det = type("D", (), {"initial_position": pos, "sun_moon": type("SM", (), {"sun_moon_cuts": True})()})()
    sim = type("S", (), {"mode": "Diffuse", "angle_from_limb": SV(c=core.lit_fr(math.radians(7))), "max_cherenkov_angle": SV(c=core.lit_fr(math.radians(3))),
                         "max_azimuth_angle": SV(c=core.lit_fr(math.radians(360)))})()
    return ns["RegionGeom"](type("Cfg", (), {"detector": det, "simulation": sim})())


def _copy_plain_attrs(ns, g):
    """Non-numeric attributes that the real __init__ creates (caches, flags, ...) are copied from a throw-away
    object initialised in a scratch context, so that methods relying on them run on harness-built objects."""
    import copy

    from symnp.core import Ctx

    old = Ctx.current
    Ctx.current = Ctx(prune=False)
    try:
        tmp = _concrete_geom(ns)
    finally:
        Ctx.current = old
    for k, v in vars(tmp).items():
        if not isinstance(v, (SV, SymArray)) and not hasattr(v, "simulation"):
            try:
                setattr(g, k, copy.deepcopy(v))
            except Exception:
                pass


def along_run(s_zero, pinned=False):
    """find_lat_long_along_traj on a RegionGeom whose per-event attributes are generalised to free
    angles (the function only reads attributes): s = 0 must return the ground spot; for s > 0 the
    distance from the Earth's centre must be the one implied by the emergence angle."""

    def run(C):
        ns = gm.load_geom()
        g = object.__new__(ns["RegionGeom"])
        _copy_plain_attrs(ns, g)
        R = SV.of(6378.1)
        g.earth_radius = R
        th, ph, thNV, azi = (core.free_angle(n) for n in ("thetaTrSubV", "phiTrSubV", "thetaNSubV", "aziAngVSubN"))
        lat, lon = core.free_angle("latS"), core.free_angle("longS")
        C.assume(lat.t >= -PI / 2, lat.t <= PI / 2, lon.t >= 0, lon.t < 2 * PI, th.t >= 0, th.t <= PI / 2, thNV.t >= 0, thNV.t <= PI / 2)
        if pinned:
            # one concrete family of trajectories (rational points of the unit circle), s still symbolic:
            # the quantified claim fails for every s > 0 already here
            def pin(a, s_, c_):
                sa, ca = core.sincos(a)
                C.assume(sa == core.rv(Fr(*s_)), ca == core.rv(Fr(*c_)))

            pin(th, (3, 5), (4, 5))
            pin(ph, (5, 13), (12, 13))
            pin(thNV, (8, 17), (15, 17))
            pin(azi, (0, 1), (1, 1))
            pin(lat, (0, 1), (1, 1))
            pin(lon, (0, 1), (1, 1))
        np_ = ns["np"]
        g.thetaTrSubV, g.phiTrSubV = SymArray([th]), SymArray([ph])
        g.elevAngVSubN = SymArray([0.5 * np_.pi - thNV])  # as computed by throw
        g.aziAngVSubN = SymArray([azi])
        g.latS, g.longS = SymArray([core.sv_degrees(lat)]), SymArray([core.sv_degrees(lon)])
        g.event_mask = SymArray([SV(c=True, kind="B")], "bool")
        s = z3.Real("s")
        if s_zero:
            sv = SV(c=Fr(0))
        else:
            sv = SV(t=s)
            C.assume(s > 0)
        with load.Tracer(watch=["find_lat_long_along_traj"]) as tr:
            latP, lonP = g.find_lat_long_along_traj(SymArray([sv]))
        loc = tr.locals.get("find_lat_long_along_traj", {})
        if "dist2EarthCenter" in loc:
            d2 = SV.of(loc["dist2EarthCenter"][0]).term()
        else:
            # the implementation no longer has a local of that name: the distance from the Earth's centre is DEFINED from
            # the returned angles (longitude = arctan2(y, x), sin(latitude) = z / d): d > 0, d^2 cos^2(lat) = x^2 + y^2
            yx = core.atan2_args(SV.of(lonP[0]))
            if yx is None:
                raise core.HarnessError("the returned longitude is not the arctan2 of two components")
            sl_ = core.sincos(SV.of(latP[0]))[0]
            d2 = z3.Real("dist_from_centre")
            C.assume(d2 > 0, d2 * d2 * (1 - sl_ * sl_) == yx[0] * yx[0] + yx[1] * yx[1])
        # emergence angle of this trajectory as throw defines it
        (sV, cV), (sP, cP), (sN, cN) = core.sincos(th), core.sincos(ph), core.sincos(thNV)
        sinbeta = cV * cN - sV * sN * cP  # == cos(theta_TrN)
        Rt = R.term()
        claims = {}
        if s_zero:
            (sl, cl), (so, co) = core.sincos(lat), core.sincos(lon)
            (slp, clp), (sop, cop) = core.sincos(SV.of(latP[0])), core.sincos(SV.of(lonP[0]))
            claims["s = 0: distance from the Earth's centre == R"] = d2 == Rt
            claims["s = 0: reported latitude == ground-spot latitude"] = SV.of(latP[0]).t == lat.t
            claims["s = 0: reported longitude points in the ground-spot direction (cos lat > 0)"] = z3.Implies(cl > 0, z3.And(sop == so, cop == co))
        else:
            claims["s > 0: distance from the Earth's centre is the one implied by the emergence angle: |X(s)|^2 == R^2 + s^2 + 2 R s sin(beta)"] = d2 * d2 == Rt * Rt + s * s + 2 * Rt * s * sinbeta
        inputs = {"s": s, "thetaTrSubV": th.t, "phiTrSubV": ph.t, "thetaNSubV": thNV.t}
        skip = _skip_origin if s_zero else (lambda t_, w_: "s > 0 is the subject of a known finding; only the consistency claim is examined")
        return harness.Out(claims=claims, inputs=inputs, skip_defd=skip)

    return run


# ---------------------------------------------------------------------------------
# F1: floating-point bug hunt on the face u4 = 0 (QF_FP; every sat is replayed on the real code)
# ---------------------------------------------------------------------------------
def _fp_dscr(h, R):
    """bit-precise transcription of region_geometry.py:throw lines 120-138 at u4 = 0 for a double
    detector altitude h (checked at run time against the real code on concrete altitudes)"""
    F = z3.Float64()
    rm = z3.RNE()
    c = lambda x: z3.FPVal(x, F)  # noqa
    core_alt = z3.fpAdd(rm, R, h)
    R2 = z3.fpMul(rm, R, R)
    A = z3.fpSub(rm, z3.fpMul(rm, core_alt, core_alt), R2)
    Lmax = z3.fpSqrt(rm, A)
    L3 = z3.FP("Lmax_cubed", F)  # libm pow(Lmax, 3): any double within 2 ulp of the rounded product
    m = z3.fpMul(rm, z3.fpMul(rm, Lmax, Lmax), Lmax)
    # pow(Lmax, 3) modelled as fl(fl(Lmax*Lmax)*Lmax); where libm's pow differs by an ulp the replay filters the model
    side = L3 == m
    r = z3.fpAdd(rm, z3.fpMul(rm, z3.fpMul(rm, c(-1.5), A), Lmax), z3.fpMul(rm, c(0.5), L3))
    q = z3.fpNeg(A)
    dscr = z3.fpAdd(rm, z3.fpMul(rm, z3.fpMul(rm, q, q), q), z3.fpMul(rm, r, r))
    return dscr, side, (A, Lmax, L3, r, q)


def _real_face(alt, u4=0.0):
    import sys
    import warnings

    import numpy as np

    from nuspacesim.config import NssConfig
    from nuspacesim.simulation.geometry.region_geometry import RegionGeom

    cfg = NssConfig()
    cfg.detector.initial_position.altitude = alt
    cap = {}

    def prof(frame, event, arg):
        if event == "return" and frame.f_code.co_name == "throw" and frame.f_code.co_filename.endswith("region_geometry.py"):
            cap.update({k: frame.f_locals.get(k) for k in ("dscr", "r", "q")})

    with warnings.catch_warnings(), np.errstate(all="ignore"):
        warnings.simplefilter("ignore")
        g = RegionGeom(cfg)
        sys.setprofile(prof)
        try:
            g.throw(np.array([[0.5], [0.25], [0.5], [u4]]))
        finally:
            sys.setprofile(None)
    return g, cap


def fp_face_job(lo_alt=30.0, hi_alt=40.0):
    import numpy as np

    from astropy import units as u
    from astropy.constants import R_earth

    F = z3.Float64()
    Rv = float(R_earth.to(u.km).value)
    R = z3.FPVal(Rv, F)
    verdicts = []
    # 1. the transcription must agree bit for bit with the real code on concrete altitudes
    ok = 0
    for alt in (33.0, 400.0, 1.0, 525.0, 3.0, 1000.0, 17.25, 35999.0):
        g, cap = _real_face(alt)
        h = z3.FPVal(alt, F)
        dscr, side, (A, Lmax, L3, r, q) = _fp_dscr(h, R)
        real_L3 = float(np.float64(g.maxLOSpathLen) ** 3)
        sgn = z3.simplify(z3.fpGT(z3.substitute(dscr, (L3, z3.FPVal(real_L3, F))), z3.FPVal(0.0, F)))
        real_pos = bool(cap["dscr"][0] > 0)
        if z3.is_true(sgn) != real_pos:
            raise core.HarnessError(f"FP transcription of throw() lines 120-138 disagrees with the real code at altitude {alt}: real dscr {cap['dscr'][0]!r}")
        ok += 1
    # 2. is there an altitude for which the rounded discriminant is positive at u4 = 0 ?
    h = z3.FP("det_alt", F)
    dscr, side, _ = _fp_dscr(h, R)
    s = z3.Solver()
    s.set("timeout", 600000)
    s.add(z3.fpGEQ(h, z3.FPVal(lo_alt, F)), z3.fpLEQ(h, z3.FPVal(hi_alt, F)), side, z3.fpGT(dscr, z3.FPVal(0.0, F)))
    import time as _t

    t0 = _t.time()
    tried, nq, model = [], 0, None
    # pow(Lmax, 3) is modelled as fl(fl(Lmax*Lmax)*Lmax); where libm's pow differs by an ulp a model of the encoding is not
    # a model of the real code: such an altitude is excluded and the solver is asked again (at most 8 times)
    while True:
        r = str(s.check())
        nq += 1
        if r != "sat" or nq > 8:
            break
        hv = s.model()[h]
        alt = float(hv.significand()) * 2.0 ** hv.exponent_as_long(False)  # decode the double
        if hv.isNegative():
            alt = -alt
        g_, cap_ = _real_face(alt, 0.0)
        L_, kept_ = float(g_.losPathLen[0]), bool(g_.event_mask[0])
        if kept_ and not (float(g_.minLOSpathLen) <= L_ <= float(g_.maxLOSpathLen)):
            model = alt
            break
        tried.append(alt)
        s.add(z3.Not(z3.fpEQ(h, z3.FPVal(alt, F))))
    dt = _t.time() - t0
    v = {"obligation": f"face u4 = 0 (IEEE double, bit-precise, detector altitude in [{lo_alt}, {hi_alt}] km): the rounded discriminant q^3 + r^2 is never positive, so the trigonometric root in [Lmin, Lmax] is selected",
         "verdict": "sat" if model is not None else (r if r == "unsat" else "unknown"), "time_s": round(dt, 3), "kind": "claim"}
    if model is not None:
        v["model"] = {"det_alt": model, "u4": 0.0}
    if tried:
        v["reason"] = f"models of the encoding that the real code does not follow (libm pow vs two multiplications): {tried}"
    verdicts.append(v)
    return {"verdicts": verdicts, "queries": nq + ok, "paths": 1, "solver_time": dt, "info": [{"transcription_checked_on": ok}]}


def _geom_sampler(symbolic_det=False, generalised=True, sliced=False, steep=False):
    import math

    def s(rng):
        R = 6378.1
        steep_now = steep and rng.uniform() < 0.7  # steep lines of sight reach emergence angles around the 42 deg cut
        h = float(10 ** rng.uniform(2.3, 4)) if steep_now else float(10 ** rng.uniform(0, 3.3))
        r = R + h
        aH = math.pi / 2 - math.acos(R / r)
        limb = float(rng.uniform(0.6, 0.98) * aH) if steep_now else float(rng.uniform(0.05, 0.95) * aH)
        v = {"det_alt": h, "limb": limb, "max_cher": float(rng.uniform(0.01, 1.2)), "max_az": float(rng.uniform(0.1, 2 * math.pi))}
        if symbolic_det:
            # half of the detectors near a pole: there the ground spot can lie beyond the rotation axis (|lat| + theta_S > 90 deg)
            lat = float(rng.uniform(-1.4, 1.4)) if rng.uniform() < 0.5 else float(rng.choice([-1, 1]) * rng.uniform(1.2, 1.56))
            v["detLat"], v["detLong"] = lat, float(rng.uniform(-6.25, 6.25))  # (east longitudes up to 360 deg and west longitudes are both legal configurations)
        aMin = aH - limb
        Lmax = math.sqrt(r * r - R * R)
        Lmin = r * math.cos(aMin) - math.sqrt(R * R - (r * math.sin(aMin)) ** 2)
        if generalised:
            v["Lmin"], v["Lmax"] = Lmin, Lmax
        if sliced:
            v["L"] = float(rng.uniform(Lmin, Lmax))
        for k in range(1, 5):
            v[f"u{k}_0"] = float(rng.uniform(0.01, 0.99))
        if symbolic_det and sliced and rng.uniform() < 0.3:
            # a line of sight that passes over the pole: detector within a few degrees of it, full azimuth range, spot azimuth
            # towards the pole, long line of sight (the ground spot then lies beyond the rotation axis: the quadrant of the
            # longitude matters)
            sgn = float(rng.choice([-1, 1]))
            v["detLat"] = sgn * float(rng.uniform(1.45, 1.56))
            v["max_az"] = 2 * math.pi
            v["u3_0"] = 0.5 + sgn * float(rng.uniform(0.2, 0.3))
            v["L"] = float(Lmin + rng.uniform(0.6, 0.99) * (Lmax - Lmin))
        return v

    return s


def job_init(tier):
    return harness.run_job("RegionGeom.__init__ lemmas", init_lemmas_run(), timeout_ms=120000 if tier == "quick" else 600000, second=(tier == "thorough"),
                           witness=(_geom_sampler(generalised=False), 10))


def job_cubic(tier):
    return harness.run_job("throw: path-length sampling (cubic root selection)", cubic_run(), timeout_ms=120000 if tier == "quick" else 600000, second=(tier == "thorough"),
                           prune_timeout_ms=4000, witness=(_geom_sampler(), 40))


def job_bracket(tier):
    return harness.run_job("normalisation bracket", bracket_run(), timeout_ms=60000)


def job_spot(tier):
    return harness.run_job("throw: ground spot (ENU -> ECEF)", spot_run(), timeout_ms=60000 if tier == "quick" else 600000, second=(tier == "thorough"), prune_timeout_ms=4000,
                           witness=(_geom_sampler(symbolic_det=True, sliced=True), 60))


def job_beta(tier):
    return harness.run_job("throw: emergence angle and validity mask", beta_run(), timeout_ms=60000 if tier == "quick" else 600000, second=(tier == "thorough"), prune_timeout_ms=4000,
                           witness=(_geom_sampler(sliced=True, steep=True), 120))


def rethrow_run():
    """throw, query the positions, throw AGAIN on the same object, query again: the second answer must
    belong to the second throw (no state kept from the first)."""

    def run(C):
        ns, cfg, inp, g = _generalised(C, symbolic_det=False)
        f, cut = gm.throw_slices(ns)
        res = []
        for rnd in (1, 2):
            L = z3.Real(f"L_{rnd}")
            C.assume(L >= inp["Lmin"], L <= inp["Lmax"], L > 0)
            g.losPathLen = SymArray([SV(t=L)], "float")
            us = [z3.Real(f"u{k}_r{rnd}") for k in range(1, 5)]
            for x in us:
                C.assume(x >= 0, x <= 1)
            f(g, gm.U4([SymArray([SV(t=x)], "float") for x in us]))
            g.event_mask = SymArray([SV(c=True, kind="B")], "bool")  # the event of interest is a kept one
            acc = {}
            for name, attr, conv in (("betas", "betaTrSubN", None), ("thetas", "thetaTrSubV", None), ("phis", "phiTrSubV", None), ("pathLens", "losPathLen", None),
                                     ("valid_costhetaTrSubN", "costhetaTrSubN", None), ("valid_costhetaNSubV", "costhetaNSubV", None), ("valid_costhetaTrSubV", "costhetaTrSubV", None),
                                     ("valid_longS", "longS", None), ("valid_latS", "latS", None), ("valid_elevAngVSubN", "elevAngVSubN", None), ("valid_aziAngVSubN", "aziAngVSubN", None),
                                     ("valid_latS_rad", "latS", "rad"), ("valid_longS_rad", "longS", "rad"), ("beta_rad", "betaTrSubN", "rad")):
                got = SV.of(getattr(g, name)()[0])
                want = SV.of(getattr(g, attr)[0])
                if conv == "rad":
                    want = core.sv_radians(want)
                acc[name] = (got, want)
            res.append(acc)
        claims = {}
        for rnd, acc in enumerate(res, 1):
            for name, (got, want) in acc.items():
                claims[f"throw {rnd} on the same object: {name}() returns THIS throw's values"] = got.term() == want.term()
        inputs = dict(inp)

        first_line = f.fn_lines[0]

        def skip(tag, where, cond=None):
            try:
                ln = int(where.rsplit(":", 1)[1])
            except Exception:
                ln = 0
            return _skip_origin(tag, where, cond) or ("definedness of throw / find_lat_long_along_traj is established by the spot, angle and s = 0 jobs"
                                                      if (ln >= first_line and "region_geometry" in where) else None)

        return harness.Out(claims=claims, inputs=inputs, skip_defd=skip)

    return run


def _rethrow_sampler():
    base = _geom_sampler()

    def s(rng):
        v = base(rng)
        for rnd in (1, 2):
            v[f"L_{rnd}"] = float(rng.uniform(v["Lmin"], v["Lmax"]))
            for k in range(1, 5):
                v[f"u{k}_r{rnd}"] = float(rng.uniform(0.01, 0.99))
        return v

    return s


def job_rethrow(tier):
    return harness.run_job("throw twice on one object, then the per-event accessors", rethrow_run(), timeout_ms=20000 if tier == "quick" else 120000, prune_timeout_ms=4000,
                           witness=(_rethrow_sampler(), 12))


def job_along(s_zero, tier):
    return harness.run_job(f"find_lat_long_along_traj ({'s = 0' if s_zero else 's > 0, one pinned trajectory family'})", along_run(s_zero, pinned=not s_zero),
                           timeout_ms=60000 if tier == "quick" else 600000, prune_timeout_ms=4000, twin=s_zero)


def job_fp_face(tier, window=None):
    # (the whole range [1, 36000] km in one query was tried for the thorough tier: the first eight models all sit where
    # libm's pow and the two-multiplication model of Lmax**3 differ by an ulp, and the ninth query does not finish in 10 min;
    # the thorough tier asks the question on three windows instead)
    rng = tuple(window) if window else (30.0, 40.0)
    return harness.plain_job(f"floating-point face u4 = 0 (QF_FP bug hunt, altitude window {rng[0]:g}-{rng[1]:g} km)", lambda: fp_face_job(*rng))


def jobs(tier, seed):
    return [("init", "job_init", {"tier": tier}), ("bracket", "job_bracket", {"tier": tier}), ("cubic", "job_cubic", {"tier": tier}),
            ("spot", "job_spot", {"tier": tier}), ("beta", "job_beta", {"tier": tier}), ("along0", "job_along", {"s_zero": True, "tier": tier}),
            ("alongs", "job_along", {"s_zero": False, "tier": tier}), ("fp", "job_fp_face", {"tier": tier}), ("rethrow", "job_rethrow", {"tier": tier})] + (
        [("fp400", "job_fp_face", {"tier": tier, "window": [395.0, 405.0]}), ("fp1", "job_fp_face", {"tier": tier, "window": [0.9, 1.1]})] if tier == "thorough" else [])


def replay(v):
    import warnings

    import numpy as np

    job, ob = v.get("job", ""), v["obligation"]
    m = {k: x for k, x in (v.get("model") or {}).items() if x is not None}
    if job.startswith("floating-point face"):  # (any altitude window)
        alt = m.get("det_alt")
        if alt is None:
            return {"reproduced": False, "key": None, "detail": "no altitude in the model"}
        g, cap = _real_face(alt, 0.0)
        L, Lmin, Lmax, kept = float(g.losPathLen[0]), float(g.minLOSpathLen), float(g.maxLOSpathLen), bool(g.event_mask[0])
        if kept and not (Lmin <= L <= Lmax):
            return {"reproduced": True, "key": "throw: face u4 = 0, rounded discriminant positive: out-of-range path length passes the validity mask",
                    "detail": f"detector altitude {alt!r} km, u = (0.5, 0.25, 0.5, 0.0): discriminant {float(cap['dscr'][0])!r} > 0, losPathLen = {L} outside [{Lmin}, {Lmax}], event kept"}
        return {"reproduced": False, "key": None, "detail": f"altitude {alt}: L={L}, kept={kept}"}
    if job.startswith("find_lat_long_along_traj (s > 0"):
        from nuspacesim.config import NssConfig
        from nuspacesim.simulation.geometry.region_geometry import RegionGeom

        s = m.get("s", 1.0)
        s = s if s and s > 0 else 1.0
        cfg = NssConfig()
        cfg.detector.initial_position.latitude, cfg.detector.initial_position.longitude = 0.4, 1.0
        with warnings.catch_warnings(), np.errstate(all="ignore"):
            warnings.simplefilter("ignore")
            g = RegionGeom(cfg)
            np.random.seed(1)
            g.throw(400)
            n = int(g.event_mask.sum())
            lat, lon = g.find_lat_long_along_traj(np.full(n, s))
        nv = lambda a, b: np.stack([np.cos(a) * np.cos(b), np.cos(a) * np.sin(b), np.sin(a)], -1)  # noqa
        off = np.arccos(np.clip(np.sum(nv(lat, lon) * nv(g.valid_latS_rad(), g.valid_longS_rad()), -1), -1, 1))
        R, b = g.earth_radius, g.beta_rad()
        ref = np.arccos(np.clip((R + s * np.sin(b)) / np.sqrt(R * R + s * s + 2 * R * s * np.sin(b)), -1, 1))
        rel = np.max(np.abs(off - ref) / np.maximum(ref, 1e-300))
        if rel > 1e-3:
            return {"reproduced": True, "key": "find_lat_long_along_traj(s > 0): ground offset inconsistent with the emergence angle",
                    "detail": f"s = {s} km, 400 thrown events (seed 1): ground offset differs from the value implied by beta by up to {rel*100:.2f} % (azimuth convention of the frame chain differs from the emergence-angle formula)"}
        return {"reproduced": False, "key": None, "detail": f"max relative offset error {rel}"}
    if job.startswith("throw twice"):
        from nuspacesim.config import NssConfig
        from nuspacesim.simulation.geometry.region_geometry import RegionGeom

        cfg = NssConfig()
        cfg.detector.initial_position.latitude, cfg.detector.initial_position.longitude = 0.3, 0.7
        with warnings.catch_warnings(), np.errstate(all="ignore"):
            warnings.simplefilter("ignore")
            g = RegionGeom(cfg)
            rng = np.random.default_rng(2)
            worst = 0.0
            for rnd in range(3):
                g.throw(rng.uniform(1e-6, 1 - 1e-6, (4, 50)))
                try:
                    lat, lon = g.find_lat_long_along_traj(np.zeros(int(g.event_mask.sum())))
                except Exception as ex:
                    return {"reproduced": True, "key": "positions after a repeated throw on one object are wrong (state kept from an earlier throw)",
                            "detail": f"throw number {rnd+1} on the same object: find_lat_long_along_traj raised {type(ex).__name__}: {ex}"}
                want = np.radians(g.latS[g.event_mask])
                worst = max(worst, float(np.max(np.abs(lat - want)))) if len(lat) == len(want) else 9.9
                if len(lat) != len(want) or np.max(np.abs(lat - want)) > 1e-7:
                    return {"reproduced": True, "key": "positions after a repeated throw on one object are wrong (state kept from an earlier throw)",
                            "detail": f"throw number {rnd+1} on the same RegionGeom object: latitude at s = 0 differs from that throw's ground spots by up to {worst} rad"}
        return {"reproduced": False, "key": None, "detail": "repeated throws on one object give consistent positions"}
    if job.startswith("throw: ground spot"):
        r = _replay_spot(m)
        if r:
            return {"reproduced": True, "key": "throw: ground spot is not at the line-of-sight distance from the detector", "detail": r}
        return {"reproduced": False, "key": None, "detail": "real throw: every ground spot at distance L from the detector (model configuration and detectors near the poles)"}
    if "kept exactly" in ob or "emergence angle ==" in ob or "cos(theta_TrN)" in ob:
        r = _replay_mask()
        if r:
            return {"reproduced": True, "key": "throw: validity mask differs from (upward-going and beta < 42 deg)", "detail": r}
    return {"reproduced": False, "key": None, "detail": "no replay for this obligation"}


def _replay_spot(m):
    """Real throw: explicit ECEF vectors of the detector and of the reported ground spot; their distance must be the
    line-of-sight length, the spot must lie on the sphere.  The solver's / concolic point first, then detectors at and
    near the poles and at mid latitudes (the claims are stated away from the poles themselves)."""
    import warnings

    import numpy as np

    from nuspacesim.config import NssConfig
    from nuspacesim.simulation.geometry.region_geometry import RegionGeom

    rng = np.random.default_rng(3)
    cases = []
    if "detLat" in m:
        cases.append((float(m.get("det_alt", 525.0)), float(m["detLat"]), float(m.get("detLong", 0.0)), float(m.get("max_az", 2 * np.pi))))
    cases += [(525.0, np.radians(80.0), 0.3, 2 * np.pi), (525.0, np.radians(-85.0), -2.0, 2 * np.pi), (33.0, np.radians(-89.0), 1.0, 2 * np.pi),
              (525.0, np.radians(45.0), 2.5, 2 * np.pi), (2000.0, np.radians(70.0), -0.4, np.pi), (525.0, 0.0, 0.0, 2 * np.pi),
              (525.0, np.radians(-10.0), np.radians(352.0), 2 * np.pi), (33.0, np.radians(20.0), np.radians(-179.0), 2 * np.pi), (525.0, np.radians(5.0), np.radians(181.0), 2 * np.pi)]
    for alt, lat, lon, az in cases:
        cfg = NssConfig()
        cfg.detector.initial_position.altitude = alt
        cfg.detector.initial_position.latitude, cfg.detector.initial_position.longitude = lat, lon
        cfg.simulation.max_azimuth_angle = az
        with warnings.catch_warnings(), np.errstate(all="ignore"):
            warnings.simplefilter("ignore")
            g = RegionGeom(cfg)
            g.throw(rng.uniform(1e-3, 1 - 1e-3, (4, 20000)))
        R, r = g.earth_radius, g.core_alt
        D = r * np.array([np.cos(lat) * np.cos(lon), np.cos(lat) * np.sin(lon), np.sin(lat)])
        la, lo = np.radians(g.latS), np.radians(g.longS)
        P = R * np.array([np.cos(la) * np.cos(lo), np.cos(la) * np.sin(lo), np.sin(la)])
        d = np.sqrt(((D[:, None] - P) ** 2).sum(axis=0))
        ok = np.isfinite(d) & np.isfinite(g.losPathLen)
        err = np.abs(d - g.losPathLen)
        rng_bad = np.isfinite(g.longS) & np.isfinite(g.latS) & ((g.longS < 0) | (g.longS > 360) | (g.latS < -90) | (g.latS > 90))
        if rng_bad.any():
            k = int(np.argmax(rng_bad))
            return (f"detector at {alt} km, latitude {np.degrees(lat):.2f} deg, longitude {np.degrees(lon):.2f} deg: {int(rng_bad.sum())} of 20000 ground spots have a latitude outside "
                    f"[-90, 90] or a longitude outside [0, 360] deg; e.g. event {k}: lat {g.latS[k]:.4f}, long {g.longS[k]:.4f} deg")
        bad = ok & (err > 1e-6 * r)
        if bad.any():
            k = int(np.argmax(np.where(bad, err, 0)))
            return (f"detector at {alt} km, latitude {np.degrees(lat):.2f} deg, longitude {np.degrees(lon):.2f} deg: {int(bad.sum())} of 20000 ground spots are not at the "
                    f"line-of-sight distance; e.g. event {k}: spot (lat {g.latS[k]:.4f}, long {g.longS[k]:.4f}) deg is {d[k]:.3f} km from the detector, losPathLen = {g.losPathLen[k]:.3f} km")
    return None


def _replay_mask():
    """Real throw on configurations whose trajectories reach the 42 deg cut; the mask and beta are
    recomputed from explicit vectors built from the public per-event arrays."""
    import warnings

    import numpy as np

    from nuspacesim.config import NssConfig
    from nuspacesim.simulation.geometry.region_geometry import RegionGeom

    rng = np.random.default_rng(11)
    for alt, limb_deg in ((525.0, 40.0), (33.0, 50.0), (9000.0, 7.0), (525.0, 7.0)):
        cfg = NssConfig()
        cfg.detector.initial_position.altitude = alt
        cfg.simulation.angle_from_limb = np.radians(limb_deg)
        with warnings.catch_warnings(), np.errstate(all="ignore"):
            warnings.simplefilter("ignore")
            g = RegionGeom(cfg)
            aH = np.pi / 2 - np.arccos(g.earth_radius / g.core_alt)
            if cfg.simulation.angle_from_limb >= aH:
                cfg.simulation.angle_from_limb = 0.95 * aH
                g = RegionGeom(cfg)
            u = rng.uniform(1e-6, 1 - 1e-6, (4, 20000))
            g.throw(u)
        cNV = (g.core_alt**2 - g.earth_rad_2 - g.losPathLen**2) / (2 * g.earth_radius * g.losPathLen)
        sNV = np.sqrt(np.clip(1 - cNV**2, 0, None))
        th, ph = g.thetaTrSubV, g.phiTrSubV
        tz = np.cos(th) * cNV - np.sin(th) * sNV * np.cos(ph)  # trajectory . local vertical
        beta = 90.0 - np.degrees(np.arccos(np.clip(tz, -1, 1)))
        want = (tz >= 0) & (beta < 42.0)
        edge = np.abs(beta - 42.0) < 1e-9
        nbad = int(np.sum((want != g.event_mask) & ~edge))
        if nbad:
            k = int(np.argmax((want != g.event_mask) & ~edge))
            return (f"detector {alt} km, angle from limb {np.degrees(cfg.simulation.angle_from_limb):.1f} deg: {nbad} of 20000 events have a mask different from "
                    f"(upward and beta < 42 deg); e.g. event {k}: beta = {beta[k]:.3f} deg, trajectory.vertical = {tz[k]:.4f}, kept = {bool(g.event_mask[k])}")
        if np.max(np.abs(g.betaTrSubN - beta)) > 1e-6:
            return f"detector {alt} km: reported emergence angle differs from 90 deg - angle(trajectory, vertical) by {np.max(np.abs(g.betaTrSubN - beta))} deg"
    return None


MANIFEST_ENTRY = {
    "level_text": "The real RegionGeom.__init__ and throw are executed symbolically with detector altitude, angle from limb, cone angle, azimuth range, detector latitude/longitude and u in the CLOSED cube symbolic (N=1; elementwise code). nlsat proves, through staged lemmas and generalisation cuts over the code's own terms: Lmax^2 = r_d^2 - R^2, r_d - R <= Lmin < Lmax, positivity of the normalisation bracket; on every feasible path of the cubic root selection the discriminant is <= 0, the selected root lies in [Lmin, Lmax], satisfies the inverse-CDF cubic in u4 and selected roots coincide; the ground spot direction is a unit vector, the reported (lat, long) point in that direction, |r_d D - R P|^2 = L^2 with explicit ECEF vectors, lat in [-90,90], long in [0,360]; cos(theta_NV), cos(theta_TrN) equal dot products of explicit vectors, beta = 90 deg - angle(trajectory, vertical), kept iff upward and beta < 42 deg; find_lat_long_along_traj(0) returns the ground spot. A bit-precise QF_FP query hunts for rounding failures on the face u4 = 0; find_lat_long_along_traj(s > 0) is examined on a pinned trajectory family. Both produce known findings (replayed on the real code).",
    "level_note": "REAL arithmetic with algebraised trigonometry for the proofs (IEEE rounding outside, except the explicit QF_FP bug hunt whose transcription of lines 120-138 is checked against the real code at run time). The ground-spot / angle jobs execute a slice of the real throw (the cubic section cut out, L generalised with the facts proved by the cubic job). Poles (cos lat = 0) are excluded from the direction claims. Known findings: rounding at u4 = 0, positions for s > 0.",
    "technique": "symbolic execution of the real NumPy source + z3 qfnra-nlsat with staged lemmas / generalisation cuts and algebraised trigonometry; QF_FP bug hunt with replay",
}
