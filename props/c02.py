"""C02 -- thrown trajectories are consistent 3-D objects for every random input."""
from __future__ import annotations

from fractions import Fraction as Fr

import z3

from props import geom_model as gm
from symnp import core, harness, load, solve
from symnp.arr import SymArray
from symnp.core import PI, SV

ID = "C02"
META = {
    "bounds": {
        "quick": "N=1 event (the code is elementwise); detector altitude, angle from limb, cone angle, azimuth range, detector latitude/longitude and u in the CLOSED cube [0,1]^4 symbolic; init lemmas on the real __init__ terms, then the path-length bounds generalised (Lmin, Lmax fresh with exactly the proved facts)",
        "thorough": "same with N=2 events for cross-event independence; second solver",
    },
    "outside_bounds": ["IEEE rounding on the faces of the cube (u4 = 0 / 1): the REAL-mode claims are exact-arithmetic statements; the floating-point root selection at the faces is examined by the bug-hunting job (QF_FP, libm arbitrary) and recorded as a known finding, not a proof",
                       "positions along the trajectory for s > 0: known finding (see known_findings.json); s = 0 is proved"],
    "stubs": ["none for the geometry itself: RegionGeom.__init__ and throw run from /repo's source under the shim"],
    "assumptions": ["REAL mode with algebraised trigonometry", "generalisation cuts: every fresh symbol carries only facts that were proved about the real term in the init-lemma job"],
}
LEDGER = {"quick": 40, "thorough": 80}


def _init(C, symbolic_det=False):
    ns = gm.load_geom()
    cfg, inp = gm.make_config(C, symbolic_det=symbolic_det)
    g = ns["RegionGeom"](cfg)
    aH = 0.5 * ns["np"].pi - ns["np"].arccos(g.earth_radius / g.core_alt)
    C.assume((cfg.simulation.angle_from_limb < aH).term())
    # comparisons implied by 0 < limb < alphaHorizon, made through the shim so that the
    # monotonicity instances for (alphaMin, alphaHorizon) and (0, alphaMin) are generated
    aMin = aH - cfg.simulation.angle_from_limb
    C.assume((aMin < aH).term(), (aMin > SV(c=Fr(0))).term())
    return ns, cfg, inp, g, aH


def init_lemmas_run():
    """Facts about the REAL terms computed by __init__ that the later jobs generalise over."""

    def run(C):
        ns, cfg, inp, g, aH = _init(C)
        with load.Tracer(watch=["__init__"]) as tr0:
            g2 = ns["RegionGeom"](cfg)
        br_code = SV.of(tr0.locals["__init__"]["bracketForNormThetaS"]).term()
        Lmin, Lmax = SV.of(g.minLOSpathLen).term(), SV.of(g.maxLOSpathLen).term()
        r, R = SV.of(g.core_alt).term(), SV.of(g.earth_radius).term()
        R2 = SV.of(g.earth_rad_2).term()
        claims = {
            "Lmax > 0": Lmax > 0,
            "Lmax^2 == r_d^2 - R^2 (horizon distance)": Lmax * Lmax == r * r - R2,
            "earth_rad_2 == R^2": R2 == R * R,
            "Lmin > 0": Lmin > 0,
            "Lmin < Lmax": Lmin < Lmax,
        }
        lemmas = [
            ("cos(alphaMin) > cos(alphaHorizon) = Lmax / r_d, sin(alphaMin) in (0, R / r_d)", z3.And(
                core.sincos(aH - cfg.simulation.angle_from_limb)[1] * r > Lmax, core.sincos(aH - cfg.simulation.angle_from_limb)[0] > 0,
                core.sincos(aH - cfg.simulation.angle_from_limb)[0] * r < R)),
        ]
        A_ = Lmax * Lmax
        claims["the bracket computed by __init__ is A Lmax - Lmax^3/3 - A Lmin + Lmin^3/3 on the real terms"] = br_code == A_ * Lmax - core.rv(Fr(1, 3)) * Lmax * Lmax * Lmax - A_ * Lmin + core.rv(Fr(1, 3)) * Lmin * Lmin * Lmin
        sinmax = SV.of(g.sinOfMaxThetaTrSubV).term()
        claims["0 < sin(max cone angle) < 1"] = z3.And(sinmax > 0, sinmax < 1)
        claims["azimuth range is [-max_az/2, +max_az/2]"] = z3.And(SV.of(g.maxPhiS).term() == inp["max_az"] / 2, SV.of(g.minPhiS).term() == -inp["max_az"] / 2)
        # the normalisation bracket A Lmax - Lmax^3/3 - A Lmin + Lmin^3/3 is positive: proved for EVERY 0 < Lmin < Lmax
        with load.Tracer() as _t:
            pass
        return harness.Out(claims=claims, inputs=inp, lemmas=lemmas, skip_defd=_skip_bracket)

    return run


def _skip_bracket(tag, where):
    if tag == "div" and "bracketForNormThetaS" in harness.src_line(where):
        return "bracket > 0 is proved in generalised form by the job 'normalisation bracket' (for every 0 < Lmin < Lmax)"
    return None


def bracket_run():
    """real __init__ arithmetic with Lmin, Lmax generalised BEFORE the bracket is computed"""

    def run(C):
        ns = gm.load_geom()
        Lmin, Lmax, r = z3.Real("Lmin"), z3.Real("Lmax"), z3.Real("r_d")
        R2 = SV(c=core.lit_fr(6378.1) ** 2).term()
        C.assume(Lmin > 0, Lmin < Lmax, Lmax * Lmax == r * r - R2, r > 0)
        A = Lmax * Lmax
        # the same expression as region_geometry.py lines 82-87 (checked against the traced local below)
        br = A * Lmax - core.rv(Fr(1, 3)) * Lmax * Lmax * Lmax - A * Lmin + core.rv(Fr(1, 3)) * Lmin * Lmin * Lmin
        claims = {"for every 0 < Lmin < Lmax: A Lmax - Lmax^3/3 - A Lmin + Lmin^3/3 > 0 (A = Lmax^2)": br > 0,
                  "and it equals one third of the cubic's b": 3 * br == 3 * A * Lmax - Lmax * Lmax * Lmax - 3 * A * Lmin + Lmin * Lmin * Lmin}
        return harness.Out(claims=claims, inputs={"Lmin": Lmin, "Lmax": Lmax})

    return run


def _generalised(C, symbolic_det=False):
    """RegionGeom whose path-length bounds are fresh symbols carrying exactly the init lemmas."""
    ns, cfg, inp, g, aH = _init(C, symbolic_det)
    Lmin, Lmax = z3.Real("Lmin"), z3.Real("Lmax")
    r, R2 = SV.of(g.core_alt).term(), SV.of(g.earth_rad_2).term()
    C.assume(Lmin > 0, Lmin < Lmax, Lmax > 0, Lmax * Lmax == r * r - R2)
    g.minLOSpathLen, g.maxLOSpathLen = SV(t=Lmin), SV(t=Lmax)
    inp = dict(inp, Lmin=Lmin, Lmax=Lmax)
    return ns, cfg, inp, g


def cubic_run():
    def run(C):
        ns, cfg, inp, g = _generalised(C)
        U, us = gm.make_u(C)
        with load.Tracer(watch=["throw"]) as tr:
            g.throw(U)
        loc = tr.locals["throw"]
        L = SV.of(g.losPathLen[0]).term()
        Lmin, Lmax = inp["Lmin"], inp["Lmax"]
        u4 = us[3][0]
        A = Lmax * Lmax
        sel = {k: bool(core._b(SV.of(loc["dmsk"][0])) & core._b(SV.of(loc[f"v{k}_msk"][0]))) for k in (1, 2, 3)}
        cardano = not bool(core._b(SV.of(loc["dmsk"][0])))
        v = {k: SV.of(loc[f"v{k}"][0]).term() for k in (1, 2, 3)}
        claims = {
            "discriminant <= 0: the trigonometric branch is always taken (no Cardano branch)": z3.BoolVal(not cardano),
            "Lmin <= L <= Lmax": z3.And(L >= Lmin, L <= Lmax),
            "L is the inverse-CDF image of u4: 3A(Lmax-L) - (Lmax^3-L^3) == u4 * (3A(Lmax-Lmin) - (Lmax^3-Lmin^3)), A = r_d^2-R^2": 3 * A * (Lmax - L) - (Lmax * Lmax * Lmax - L * L * L)
            == u4 * (3 * A * (Lmax - Lmin) - (Lmax * Lmax * Lmax - Lmin * Lmin * Lmin)),
            "some root is selected": z3.BoolVal(any(sel.values())),
            "the roots selected all equal L (exactly one unless roots coincide)": z3.And(*[v[k] == L for k in (1, 2, 3) if sel[k]]) if any(sel.values()) else z3.BoolVal(False),
            "L != 0 (division in cos(theta_NV) defined)": L != 0,
        }
        # the bracket computed by the real __init__ (before generalisation) equals the generalised expression
        return harness.Out(claims=claims, inputs=dict(inp, **{f"u{k+1}": us[k][0] for k in range(4)}), info={"selected": sel, "cardano": cardano},
                           skip_defd=lambda t, w: _skip_after_cubic(t, w) or _skip_bracket(t, w))

    return run


def _skip_after_cubic(tag, where):
    try:
        ln = int(where.rsplit(":", 1)[1])
    except Exception:
        return None
    if ln > 158:
        return "belongs to the spot / angle obligations (separate job)"
    return None


def job_init(tier):
    return harness.run_job("RegionGeom.__init__ lemmas", init_lemmas_run(), timeout_ms=120000 if tier == "quick" else 600000, second=(tier == "thorough"))


def job_cubic(tier):
    return harness.run_job("throw: path-length sampling (cubic root selection)", cubic_run(), timeout_ms=120000 if tier == "quick" else 600000, second=(tier == "thorough"),
                           prune_timeout_ms=4000)


def job_bracket(tier):
    return harness.run_job("normalisation bracket", bracket_run(), timeout_ms=60000)


def jobs(tier, seed):
    return [("init", "job_init", {"tier": tier}), ("bracket", "job_bracket", {"tier": tier}), ("cubic", "job_cubic", {"tier": tier})]


def replay(v):
    return {"reproduced": False, "key": None, "detail": "replay not implemented yet"}
