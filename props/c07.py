"""C07 -- tau kinematics and decay point are physical and geometrically consistent."""
from __future__ import annotations

from fractions import Fraction as Fr

import z3

from props import tables
from symnp import core, harness, load
from symnp.arr import SymArray, symarr
from symnp.core import PI, SV

ID = "C07"
META = {
    "bounds": {
        "quick": "N=1 event for the identities, 2 events for the monotonicity relations; tau energy E >= E_min symbolic (E_min > m_tau from the tables), etau_frac in (0,1], beta in [0, 42 deg] as a symbolic angle, u in (0,1]; smallest reachable tau energy decided over every cell of the three shipped CDF tables",
        "thorough": "same, N=2 events for the identities as well, second solver",
    },
    "outside_bounds": ["IEEE rounding", "u = 0 (the internal generator draws from [0,1); the statement quantifies over (0,1])", "the distribution of the sampled energies themselves (C04)"],
    "stubs": ["Taus.tau_energy / Taus.tau_exit_prob -> symbolic columns (covered by C04 / C05)", "np.log / np.exp -> Ackermannised, strictly monotone mutual inverses, log(1)=0", "np.sin of the emergence angle -> point on the unit circle with monotonicity on [-pi/2, pi/2]"],
    "assumptions": ["REAL mode", "reference constants: c = 299792.458 km/s, tau0 = 2.903e-13 s, m_tau = 1.77686 GeV (PDG), compared within 1e-6 relative", "Earth radius: astropy R_earth in km as used by the code"],
}
LEDGER = {"quick": 310, "thorough": 325}
C_KM_S = Fr(299792458, 1000)
TAU0 = Fr(2903, 10**16)
MTAU = Fr(177686, 100000)


def _load_taus():
    return load.load("nuspacesim.simulation.taus.taus")


def _load_eas():
    return load.load("nuspacesim.simulation.eas_optical.eas")


def kin_run(N):
    def run(C):
        ns = _load_taus()
        Taus = ns["Taus"]
        mt = SV.of(ns["massTau"])
        E = symarr([f"E{i}" for i in range(N)])
        px = symarr([f"pexit{i}" for i in range(N)])
        f = z3.Real("etau_frac")
        C.assume(f > 0, f <= 1)
        for i in range(N):
            C.assume(z3.Real(f"E{i}") > mt.term())  # smallest reachable tau energy exceeds the tau mass: data obligation below

        class T(Taus):
            def __init__(self):
                self.config = type("Cfg", (), {"simulation": type("S", (), {"tau_shower": type("TS", (), {"etau_frac": SV(t=f)})()})()})()

            def tau_exit_prob(self, betas, log_e_nu):
                return px

            def tau_energy(self, betas, log_e_nu, u=None):
                return E

        stored = {}
        out = T()(symarr([f"beta{i}" for i in range(N)]), symarr([f"logE{i}" for i in range(N)]), store=lambda n, c: stored.update(dict(zip(n, c))))
        tauBeta, tauLorentz, tauEnergy, showerEnergy, tauExitProb = out
        claims = {
            "tau mass constant within 1e-6 of 1.77686 GeV": z3.And(mt.term() >= core.rv(MTAU * (1 - Fr(1, 10**6))), mt.term() <= core.rv(MTAU * (1 + Fr(1, 10**6)))),
            "columns stored under the documented names": z3.BoolVal(list(stored) == ["tauBeta", "tauLorentz", "tauEnergy", "showerEnergy", "tauExitProb"]),
            "tauEnergy / tauExitProb are the sampled columns": z3.BoolVal(tauEnergy is E and tauExitProb is px),
        }
        for i in range(N):
            g, b, e = tauLorentz[i].term(), tauBeta[i].term(), z3.Real(f"E{i}")
            claims[f"[{i}] Lorentz factor == E / m_tau"] = g * mt.term() == e
            claims[f"[{i}] Lorentz factor >= 1"] = g >= 1
            claims[f"[{i}] speed^2 == 1 - 1/gamma^2 and speed >= 0"] = z3.And(b >= 0, b * b * g * g == g * g - 1)
            claims[f"[{i}] 0 < speed < 1"] = z3.And(b > 0, b < 1)
            claims[f"[{i}] shower energy == etau_frac * E / 1e8 (units of 100 PeV)"] = showerEnergy[i].term() * 10**8 == f * e
        inputs = {"etau_frac": f}
        inputs.update({f"E{i}": z3.Real(f"E{i}") for i in range(N)})
        return harness.Out(claims=claims, inputs=inputs, observe={"tauBeta": tauBeta, "tauLorentz": tauLorentz, "showerEnergy": showerEnergy})

    return run


def decay_run(N):
    def run(C):
        ns = _load_eas()
        EAS = ns["EAS"]
        tau0 = SV.of(ns["mean_Tau_life"])
        cc = SV.of(ns["c"].value)  # m/s
        R = SV.of(ns["R_earth"].to(ns["units"].km).value)
        eas = object.__new__(EAS)
        beta = SymArray([core.free_angle(f"beta{i}") for i in range(N)])
        tb = symarr([f"tauBeta{i}" for i in range(N)])
        tl = symarr([f"tauLorentz{i}" for i in range(N)])
        u = symarr([f"u{i}" for i in range(N)])
        for i in range(N):
            C.assume(z3.Real(f"beta{i}") >= 0, z3.Real(f"beta{i}") <= 42 * PI / 180, z3.Real(f"tauBeta{i}") > 0, z3.Real(f"tauBeta{i}") < 1,
                     z3.Real(f"tauLorentz{i}") >= 1, z3.Real(f"u{i}") > 0, z3.Real(f"u{i}") <= 1)
        stored = {}
        alt, ln = eas.altDec(beta, tb, tl, u, store=lambda n, c: stored.update(dict(zip(n, c))))
        claims = {
            "speed of light within 1e-6 of 299792.458 km/s": z3.And(cc.term() >= core.rv(C_KM_S * 1000 * (1 - Fr(1, 10**6))), cc.term() <= core.rv(C_KM_S * 1000 * (1 + Fr(1, 10**6)))),
            "tau lifetime within 1e-6 of 2.903e-13 s": z3.And(tau0.term() >= core.rv(TAU0 * (1 - Fr(1, 10**6))), tau0.term() <= core.rv(TAU0 * (1 + Fr(1, 10**6)))),
            "columns stored as altDec, lenDec": z3.BoolVal(list(stored) == ["altDec", "lenDec"]),
        }
        lemmas = []
        for i in range(N):
            l, a = ln[i].term(), alt[i].term()
            g, b, ui = z3.Real(f"tauLorentz{i}"), z3.Real(f"tauBeta{i}"), z3.Real(f"u{i}")
            lnu = core.sv_log(SV(t=ui)).term()
            scale = g * b * core.rv(C_KM_S) * core.rv(TAU0)  # mean decay length in km (reference constants)
            sb, cb = core.sincos(beta[i])
            claims[f"[{i}] decay length == -gamma*beta*c*tau0*ln(u) (km, reference constants, 1e-6)"] = z3.And(
                l >= -scale * lnu * core.rv(1 - Fr(2, 10**6)), l <= -scale * lnu * core.rv(1 + Fr(2, 10**6)))
            claims[f"[{i}] decay length >= 0"] = l >= 0
            mean = g * b * cc.term() * tau0.term() / 1000
            claims[f"[{i}] exponential law: exp(-l/(gamma beta c tau0)) == u"] = core.sv_exp(SV(t=-l / mean)).term() == ui
            claims[f"[{i}] decay altitude >= 0"] = a >= 0
            # explicit vectors: start (0, R), direction (cos b, sin b) -> |start + l*dir| - R
            px, py = l * cb, R.term() + l * sb
            claims[f"[{i}] altitude == |surface point + l * direction(beta)| - R (explicit vectors)"] = z3.And(a + R.term() >= 0, (a + R.term()) * (a + R.term()) == px * px + py * py)
        if N == 2:
            l0, l1, a0, a1 = ln[0].term(), ln[1].term(), alt[0].term(), alt[1].term()
            same_kin = z3.And(z3.Real("tauLorentz0") == z3.Real("tauLorentz1"), z3.Real("tauBeta0") == z3.Real("tauBeta1"))
            claims["decay length strictly decreasing in u"] = z3.Implies(z3.And(same_kin, z3.Real("u0") < z3.Real("u1")), l0 > l1)
            claims["altitude non-decreasing in length (same angle)"] = z3.Implies(z3.And(z3.Real("beta0") == z3.Real("beta1"), l0 <= l1), a0 <= a1)
            claims["altitude strictly increasing in length (same angle, beta > 0 or l > 0)"] = z3.Implies(z3.And(z3.Real("beta0") == z3.Real("beta1"), l0 < l1), a0 < a1)
            claims["altitude non-decreasing in emergence angle (same length)"] = z3.Implies(z3.And(l0 == l1, z3.Real("beta0") <= z3.Real("beta1")), a0 <= a1)
        inputs = {}
        for i in range(N):
            for n in ("beta", "tauBeta", "tauLorentz", "u"):
                inputs[f"{n}{i}"] = z3.Real(f"{n}{i}")
        return harness.Out(claims=claims, inputs=inputs, lemmas=lemmas, observe={"altDec": alt, "lenDec": ln})

    return run


def chain_run(N):
    """The real Taus.__call__ with the REAL tau_energy (sampler on a symbolic 2x2 table cell, as in C04) and the real
    exit-probability lookup stubbed: every SAMPLED tau -- every event whose emergence angle is not above the
    tabulated maximum, including angles below the table and angles exactly on a table edge -- has an energy of at
    least the smallest tabulated fraction of the neutrino energy, hence (with the data obligation E_min > m_tau)
    a Lorentz factor E/m >= 1 and a speed in (0,1)."""

    def run(C):
        from props import c04 as P4

        _ins, cns, tns = P4._load()
        M = 2
        g, E, B, F = P4.mk_cell(C, M, exact_last=True)
        T = object.__new__(tns["Taus"])
        T.tau_cdf_grid = g
        f = z3.Real("etau_frac")
        C.assume(f > 0, f <= 1)
        T.config = type("Cfg", (), {"simulation": type("S", (), {"tau_shower": type("TS", (), {"etau_frac": SV(t=f)})()})()})()
        px = symarr([f"pexit{i}" for i in range(N)])
        T.tau_exit_prob = lambda betas, log_e_nu: px
        mt = SV.of(tns["massTau"])
        betas = symarr([f"beta{i}" for i in range(N)])
        les = symarr([f"logE{i}" for i in range(N)])
        pat = ""
        for i in range(N):
            b = z3.Real(f"beta{i}")
            C.assume(z3.Real(f"logE{i}") >= E[0], z3.Real(f"logE{i}") <= E[1], b >= 0)
            # regimes (forks): below the table / ON the first tabulated angle / inside / ON the last / above
            if C.decide(b < B[0]):
                pat += "L"
            elif C.decide(b == B[0]):
                pat += "a"
            elif C.decide(b < B[1]):
                pat += "V"
            elif C.decide(b == B[1]):
                pat += "b"
            else:
                pat += "H"
        # the smallest tabulated energy fraction times the neutrino energy exceeds the tau mass (data obligation of this check)
        p10 = [core.exp10(les[i]) for i in range(N)]
        for i in range(N):
            C.assume(F[0] * p10[i].term() > mt.term())
        us = [SV(t=z3.Real(f"u{i}")) for i in range(N)]
        for i in range(N):
            be = B[0] if pat[i] == "L" else z3.Real(f"beta{i}")
            if pat[i] != "H":
                row = P4._row_at(E, B, z3.Real(f"logE{i}"), be, M)
                C.assume(us[i].term() > row[0], us[i].term() < row[M - 1])
            else:
                C.assume(us[i].term() > 0, us[i].term() < 1)
        order = [i for i in range(N) if pat[i] in "aVb"] + [i for i in range(N) if pat[i] == "L"]  # draw order of the implementation is not assumed:
        claims = {}
        tag = f"(pattern {pat})"
        before = [core.eterm(e) if C.euf else SV.of(e).term() for e in betas.a]
        betas.tag = "beta"
        ev0 = len(C.events)
        with P4.fixed_draws([us[i] for i in order] * 4 + us * 4):
            try:
                tauBeta, tauLorentz, tauEnergy, showerEnergy, _px = T(betas, les)
                err = None
            except Exception as e:  # noqa
                err = e
        betas.tag = None
        mutated = [e for e in C.events[ev0:] if e[0] == "mutate-input"]
        after = [core.eterm(e) if C.euf else SV.of(e).term() for e in betas.a]
        claims[f"Taus.__call__ accepts the batch {tag}"] = z3.BoolVal(err is None)
        claims[f"the emergence angles (used afterwards for the decay altitude) are not modified by Taus.__call__ {tag}"] = z3.BoolVal(not mutated and all(a.eq(b) for a, b in zip(before, after)))
        if err is None:
            for i in range(N):
                if pat[i] == "H":
                    continue
                e_, g_, b_ = tauEnergy[i].term(), tauLorentz[i].term(), tauBeta[i].term()
                claims[f"[{i}] sampled tau: energy >= smallest tabulated fraction x neutrino energy {tag}"] = e_ >= F[0] * p10[i].term()
                claims[f"[{i}] sampled tau: Lorentz factor == E/m and >= 1 {tag}"] = z3.And(g_ * mt.term() == e_, g_ >= 1)
                claims[f"[{i}] sampled tau: 0 < speed < 1 {tag}"] = z3.And(b_ > 0, b_ < 1)
        inputs = {"E0": E[0], "E1": E[1], "B0": B[0], "B1": B[1], "etau_frac": f}
        for i in range(N):
            for n in ("beta", "logE", "u"):
                inputs[f"{n}{i}"] = z3.Real(f"{n}{i}")
        return harness.Out(claims=claims, inputs=inputs, info={"pattern": pat}, skip_defd=lambda t, w: ("definedness of the sampler is C04's obligation" if "taus.py" not in w else
                                                   ("the batch contains an event above the tabulated maximum angle: it receives a negligible placeholder energy (eps32 x E_nu), is not a sampled tau, "
                                                    "and its kinematics are outside the property" if "H" in pat else None)))

    return run


def job_chain(N, tier):
    return harness.run_job(f"Taus.__call__ with the real tau_energy (N={N})", chain_run(N), timeout_ms=60000 if tier == "quick" else 300000, second=(tier == "thorough"))


def job_kin(N, tier):
    return harness.run_job(f"Taus.__call__(N={N})", kin_run(N), timeout_ms=60000 if tier == "quick" else 600000, second=(tier == "thorough"))


def job_decay(N, tier):
    return harness.run_job(f"EAS.altDec(N={N})", decay_run(N), timeout_ms=60000 if tier == "quick" else 600000, second=(tier == "thorough"))


def job_emin(version):
    from nuspacesim.simulation.taus.taus import massTau

    def f():
        r = tables.check_cdf_table(version, massTau, rows=False)
        r["verdicts"] = [v for v in r["verdicts"] if "tau energy" in v["obligation"] or v["kind"] == "twin" or "first CDF column" in v["obligation"]]
        return r

    return harness.plain_job(f"data nu2tau_cdf.{version} (smallest reachable tau energy)", f)


def jobs(tier, seed):
    out = [("k1", "job_kin", {"N": 1, "tier": tier}), ("d1", "job_decay", {"N": 1, "tier": tier}), ("d2", "job_decay", {"N": 2, "tier": tier}),
           ("chain1", "job_chain", {"N": 1, "tier": tier}),
           ("chain2", "job_chain", {"N": 2, "tier": tier})]  # (batches that mix a non-exiting tau with a sampled one need two events)
    if tier == "thorough":
        out.append(("k2", "job_kin", {"N": 2, "tier": tier}))
    for v in "123":
        out.append((f"emin{v}", "job_emin", {"version": v}))
    return out


def _real_alt(v, N):
    import numpy as np

    from nuspacesim.simulation.eas_optical.eas import EAS

    eas = object.__new__(EAS)
    A = lambda n: np.array([v[f"{n}{i}"] for i in range(N)], dtype=float)  # noqa
    with np.errstate(all="ignore"):
        return eas.altDec(A("beta"), A("tauBeta"), A("tauLorentz"), A("u"))


def replay(v):
    import numpy as np

    job, ob = v.get("job", ""), v["obligation"]
    if job.startswith("data "):
        return tables.replay_data(v)
    m = {k: x for k, x in (v.get("model") or {}).items() if x is not None}
    if job.startswith("Taus.__call__ with the real tau_energy"):
        # the regimes of the chain job on the real tables: angles below the table, exactly ON the first and the
        # last tabulated angle, inside; every sampled tau must have gamma = E/m >= 1 and a speed in (0,1)
        import warnings

        from nuspacesim.config import NssConfig
        from nuspacesim.simulation.taus.taus import Taus, massTau

        warnings.simplefilter("ignore")
        T = Taus(NssConfig())
        bax = np.asarray(T.tau_cdf_grid["beta_rad"], dtype=float)
        b0, b1 = float(bax[0]), float(bax[-1])
        betas = np.array([b0 * 0.3, b0, np.nextafter(b0, 1), 0.5 * (b0 + b1), float(bax[len(bax) // 2]), np.nextafter(b1, 0), b1])
        for le in (8.0, 9.5, 10.5):
            np.random.seed(7)
            with np.errstate(all="ignore"):
                tb, tl, te, se, _px = T(betas.copy(), np.full(betas.shape, le))
            given = betas.copy()
            np.random.seed(7)
            with np.errstate(all="ignore"):
                T(given, np.full(betas.shape, le))
            if not np.array_equal(given, betas):
                k = int(np.flatnonzero(given != betas)[0])
                return {"reproduced": True, "key": "Taus.__call__ modifies the emergence angles it is given",
                        "detail": f"emergence angle {betas[k]!r} rad became {given[k]!r} rad in the caller's array (the decay altitude is computed from that array afterwards)"}
            for i, b in enumerate(betas):
                if not (np.isfinite(te[i]) and te[i] > massTau and tl[i] >= 1 and abs(tl[i] * massTau - te[i]) <= 1e-9 * te[i] and 0 < tb[i] < 1):
                    return {"reproduced": True, "key": "Taus.__call__: a sampled tau has no physical kinematics",
                            "detail": f"emergence angle {b!r} rad (table range [{b0!r}, {b1!r}]), log10(E_nu) = {le}: tauEnergy = {te[i]!r} GeV, tauLorentz = {tl[i]!r}, tauBeta = {tb[i]!r}"}
        return {"reproduced": False, "key": None, "detail": "real tables: every sampled tau has gamma >= 1 and 0 < speed < 1 in all regimes"}
    if job.startswith("EAS.altDec"):
        N = int(job.split("N=")[1].rstrip(")"))
        d = {}
        for i in range(N):
            d.update({f"beta{i}": 0.2, f"tauBeta{i}": 0.999, f"tauLorentz{i}": 1e6, f"u{i}": 0.5})
        d.update(m)
        alt, ln = _real_alt(d, N)
        R = 6378.1
        bad = None
        for i in range(N):
            ref = -d[f"tauLorentz{i}"] * d[f"tauBeta{i}"] * 299792.458 * 2.903e-13 * np.log(d[f"u{i}"])
            if "decay length ==" in ob and abs(ln[i] - ref) > 1e-5 * abs(ref) + 1e-300:
                bad = f"lenDec {ln[i]} vs reference {ref}"
            if "length >= 0" in ob and ln[i] < 0:
                bad = f"negative decay length {ln[i]}"
            if "altitude >= 0" in ob and alt[i] < -1e-9:
                bad = f"negative altitude {alt[i]}"
            if "explicit vectors" in ob:
                refa = np.hypot(ln[i] * np.cos(d[f"beta{i}"]), R + ln[i] * np.sin(d[f"beta{i}"])) - R
                if abs(alt[i] - refa) > 1e-6 * (abs(refa) + 1e-3):
                    bad = f"altDec {alt[i]} vs explicit-vector altitude {refa}"
            if "exponential law" in ob:
                mean = d[f"tauLorentz{i}"] * d[f"tauBeta{i}"] * 299792.458 * 2.903e-13
                if abs(np.exp(-ln[i] / mean) - d[f"u{i}"]) > 1e-6:
                    bad = f"exp(-l/mean)={np.exp(-ln[i]/mean)} vs u={d[f'u{i}']}"
        if N == 2:
            if "decreasing in u" in ob and d["u0"] < d["u1"] and d["tauLorentz0"] == d["tauLorentz1"] and d["tauBeta0"] == d["tauBeta1"] and not ln[0] > ln[1]:
                bad = f"lenDec {ln.tolist()} not decreasing for u {d['u0']},{d['u1']}"
            if "in length" in ob and d["beta0"] == d["beta1"] and ln[0] < ln[1] and alt[0] > alt[1] + 1e-9:
                bad = f"altitude {alt.tolist()} not increasing in length {ln.tolist()}"
            if "emergence angle" in ob and abs(ln[0] - ln[1]) < 1e-12 * abs(ln[0]) and d["beta0"] <= d["beta1"] and alt[0] > alt[1] + 1e-9:
                bad = f"altitude {alt.tolist()} not increasing in angle"
        if bad:
            return {"reproduced": True, "key": "altDec: " + ob.split("/", 1)[-1], "detail": bad + f" at {d}"}
        return {"reproduced": False, "key": None, "detail": "real code satisfies the predicate"}
    if job.startswith("Taus.__call__"):
        from nuspacesim.config import NssConfig
        from nuspacesim.simulation.taus.taus import Taus, massTau

        E = np.array([m.get("E0", 1e6)])
        T = object.__new__(Taus)
        T.config = NssConfig()
        T.config.simulation.tau_shower.etau_frac = m.get("etau_frac", 0.5)
        T.tau_exit_prob = lambda b, l: np.array([0.1])
        T.tau_energy = lambda b, l, u=None: E
        tb, tl, te, se, tp = T(np.array([0.1]), np.array([8.0]))
        bad = None
        if "E / m_tau" in ob and abs(tl[0] * 1.77686 - E[0]) > 1e-6 * E[0]:
            bad = f"tauLorentz {tl[0]} * 1.77686 != E {E[0]}"
        if "speed" in ob and (not (0 < tb[0] < 1) or abs(tb[0] ** 2 - (1 - 1 / tl[0] ** 2)) > 1e-9):
            bad = f"tauBeta {tb[0]} for gamma {tl[0]}"
        if "shower energy" in ob and abs(se[0] * 1e8 - T.config.simulation.tau_shower.etau_frac * E[0]) > 1e-9 * E[0]:
            bad = f"showerEnergy {se[0]}"
        if "constant" in ob and abs(massTau - 1.77686) > 2e-6:
            bad = f"massTau = {massTau}"
        if bad:
            return {"reproduced": True, "key": "Taus.__call__: " + ob.split("/", 1)[-1], "detail": bad}
    return {"reproduced": False, "key": None, "detail": "no reproduction"}


def validate(seed, tier):
    import numpy as np

    N = 2

    def sampler(rng):
        v = {}
        for i in range(N):
            v[f"beta{i}"] = float(rng.uniform(0, np.radians(42)))
            v[f"tauBeta{i}"] = float(rng.uniform(0.9, 0.9999999))
            v[f"tauLorentz{i}"] = float(10 ** rng.uniform(3, 9))
            v[f"u{i}"] = float(rng.uniform(1e-3, 1))
        return v

    def real(v):
        alt, ln = _real_alt(v, N)
        return {"altDec": alt, "lenDec": ln}

    return harness.validate(decay_run(N), sampler, real, 50, seed, rel=1e-7, check_claims=True)


MANIFEST_ENTRY = {
    "level_text": "Bounded symbolic execution of the real Taus.__call__ (energy/exit-probability kernels stubbed by symbolic columns) and the real EAS.altDec with tau energy, etau_frac, emergence angle (symbolic angle in [0,42 deg]), speed, Lorentz factor and u in (0,1] symbolic: nlsat proves gamma = E/m_tau >= 1, speed = sqrt(1-1/gamma^2) in (0,1), shower energy = f E/1e8, decay length = -gamma beta c tau0 ln u against reference constants (1e-6), its sign, strict monotonicity in u and the exponential law, altitude = |R e_r + l d(beta)| - R from explicit vectors, non-negativity and monotonicity in length and angle. The precondition E > m_tau is decided over every cell of the three shipped CDF tables by z3 queries with a symbolic cell index, and a chain job runs the real Taus.__call__ with the REAL tau_energy (sampler on a symbolic 2x2 table cell) for every regime of the emergence angle -- below the table, exactly ON the first / last tabulated angle, inside, above -- proving that every sampled tau gets at least the smallest tabulated fraction of the neutrino energy, hence gamma >= 1 and 0 < speed < 1.",
    "level_note": "REAL arithmetic; log/exp Ackermannised with inverse/monotonicity axioms; sin/cos of the emergence angle as a unit-circle point with monotonicity on [-pi/2, pi/2]; N <= 2 (the chain job with the real tau_energy runs N = 1 and N = 2 in both tiers: a batch mixing a non-exiting tau with a sampled one needs two events); u = 0 outside the quantifier.",
    "technique": "symbolic execution of the real NumPy source + z3 qfnra-nlsat (Ackermannised log/exp, algebraised trigonometry); z3 table queries",
}
