"""C03 -- reported acceptance integrals follow from stored columns and trigger rules."""
from __future__ import annotations

import itertools
import math
from fractions import Fraction as Fr

import z3

from symnp import core, harness, load
from symnp.arr import SymArray, symarr
from symnp.core import PI, SV
from symnp.shim import NP

ID = "C03"
MOD = "nuspacesim.simulation.geometry.region_geometry"
BSHR = Fr(826, 1000)

META = {
    "bounds": {
        "quick": "N_thrown = 3 (diffuse: all 8 validity patterns) / 2 (target: all 9 horizon/volume patterns); every per-event column, threshold, normalisation, dark-sky flag symbolic; both methods; sun_moon_cuts on/off",
        "thorough": "N_thrown = 4 (diffuse, 16 patterns) / 3 (target, 27 patterns); second solver on every claim",
    },
    "outside_bounds": ["floating-point summation order (REAL mode)", "N_thrown > 4", "the statistical-uncertainty return value (np.var with ddof=1 is undefined for a single surviving event; not part of the property)"],
    "stubs": ["ToOEvent.sun_moon_cut -> one fresh Bool per time value it is given (records its argument)",
              "store= callable -> recording dict", "compute(): every stage class replaced by a recorder returning symbolic columns (wiring clause only)"],
    "assumptions": ["REAL mode", "preconditions of the statement: 0 < cos(theta_TrV), cos(theta_NV) <= 1; exit probabilities in (0,1]; effective Cherenkov cosines in (0,1] (target mode takes tan(arccos c)); spec_norm*spec_weights_sum = 1 (C12), spec_norm > 0; mcnorm > 0; decay lengths >= 0"],
}
LEDGER = {"quick": 1000, "thorough": 2500}


def _ns(extra=None):
    return load.load(MOD, extra)


def _R(n):
    return z3.Real(n)


def _skip_uncert(tag, where):
    if tag.startswith("var") or "uncert" in harness.src_line(where):
        return "statistical uncertainty (np.var with ddof=1, undefined for < 2 surviving events) is not part of the property"
    return None


# ---------------------------------------------------------------------------------
# diffuse mode
# ---------------------------------------------------------------------------------
def diffuse_run(N, costheta_scalar=False):
    def run(C):
        ns = _ns()
        RegionGeom = ns["RegionGeom"]
        np = ns["np"]
        g = object.__new__(RegionGeom)
        idx = list(range(N))
        g.costhetaTrSubV = symarr([f"cTrV{i}" for i in idx])
        g.costhetaTrSubN = symarr([f"cTrN{i}" for i in idx])
        g.costhetaNSubV = symarr([f"cNV{i}" for i in idx])
        g.betaTrSubN = symarr([f"beta{i}" for i in idx])
        g.event_mask = np.logical_and(g.costhetaTrSubN >= 0, g.betaTrSubN < 42)
        g.mcnorm = SV(t=_R("mcnorm"))
        valid = [i for i in idx if bool(g.event_mask[i])]  # forks: 2^N validity patterns
        trig = symarr([f"trig{i}" for i in valid])
        cosc = SV(t=_R("cosCh")) if costheta_scalar else symarr([f"cosCh{i}" for i in valid])
        pex = symarr([f"pexit{i}" for i in valid])
        thr, thr2, sn, sw = (SV(t=_R(n)) for n in ("thr", "thr2", "specnorm", "specw"))
        C.assume(g.mcnorm.t > 0, sn.t * sw.t == 1, sn.t > 0)
        for i in idx:
            C.assume(_R(f"cTrV{i}") > 0, _R(f"cTrV{i}") <= 1, _R(f"cNV{i}") > 0, _R(f"cNV{i}") <= 1, _R(f"cTrN{i}") <= 1, _R(f"cTrN{i}") >= -1)
        for i in valid:
            C.assume(_R(f"pexit{i}") > 0, _R(f"pexit{i}") <= 1)
            if not costheta_scalar:
                C.assume(_R(f"cosCh{i}") >= -1, _R(f"cosCh{i}") <= 1)
        if costheta_scalar:
            C.assume(cosc.t >= -1, cosc.t <= 1)
        mc, geo, npass, unc = g.mcintegral(trig, cosc, pex, thr, sn, sw)
        mc2, geo2, npass2, _ = g.mcintegral(trig, cosc, pex, thr2, sn, sw)
        # reference estimator from the columns
        ref, refgeo, refn = z3.RealVal(0), z3.RealVal(0), z3.RealVal(0)
        for k, i in enumerate(valid):
            w = _R(f"cTrN{i}") / _R(f"cNV{i}") / _R(f"cTrV{i}")
            cc = cosc.t if costheta_scalar else _R(f"cosCh{i}")
            incone = _R(f"cTrV{i}") >= cc
            passes = z3.And(incone, _R(f"trig{i}") >= thr.t)
            refgeo = refgeo + z3.If(incone, w, 0)
            contrib = w * core.rv(BSHR) * _R(f"pexit{i}")
            ref = ref + z3.If(passes, contrib, 0)
            refn = refn + z3.If(z3.And(passes, contrib != 0), 1, 0)
        ref = ref * g.mcnorm.t / N
        refgeo = refgeo * g.mcnorm.t / N
        claims = {
            "integral == mcnorm/N_thrown * sum_valid [in cone & trig>=thr] w*0.826*Pexit": SV.of(mc).term() == ref,
            "geometry-only == mcnorm/N_thrown * sum_valid [in cone] w": SV.of(geo).term() == refgeo,
            "passing count == number of non-zero contributions": SV.of(npass).term() == refn,
            "integral <= 0.826 * geometry-only": SV.of(mc).term() <= core.rv(BSHR) * SV.of(geo).term(),
            "non-increasing in threshold": z3.Implies(thr.t <= thr2.t, SV.of(mc2).term() <= SV.of(mc).term()),
            "geometry-only independent of threshold": SV.of(geo).term() == SV.of(geo2).term(),
            "integral >= 0": SV.of(mc).term() >= 0,
        }
        # permutation invariance (reverse and rotate the thrown events)
        if N >= 2:
            for pname, perm in (("reverse", idx[::-1]), ("rotate", idx[1:] + idx[:1])):
                g2 = object.__new__(RegionGeom)
                for att in ("costhetaTrSubV", "costhetaTrSubN", "costhetaNSubV", "betaTrSubN"):
                    setattr(g2, att, SymArray(getattr(g, att).a[perm].copy()))
                g2.event_mask = np.logical_and(g2.costhetaTrSubN >= 0, g2.betaTrSubN < 42)
                g2.mcnorm = g.mcnorm
                pv = [i for i in perm if i in valid]
                pos = [valid.index(i) for i in pv]
                trig_p, pex_p = SymArray(trig.a[pos].copy()), SymArray(pex.a[pos].copy())
                cos_p = cosc if costheta_scalar else SymArray(cosc.a[pos].copy())
                mcp, geop, npp, _ = g2.mcintegral(trig_p, cos_p, pex_p, thr, sn, sw)
                claims[f"permutation invariant ({pname})"] = z3.And(SV.of(mcp).term() == SV.of(mc).term(), SV.of(geop).term() == SV.of(geo).term(),
                                                                   SV.of(npp).term() == SV.of(npass).term())
        inputs = {n: _R(n) for n in ["mcnorm", "thr", "thr2", "specnorm", "specw"] + (["cosCh"] if costheta_scalar else [])}
        for i in idx:
            for n in ("cTrV", "cTrN", "cNV", "beta"):
                inputs[f"{n}{i}"] = _R(f"{n}{i}")
        for i in valid:
            for n in ("trig", "pexit") + (() if costheta_scalar else ("cosCh",)):
                inputs[f"{n}{i}"] = _R(f"{n}{i}")
        skip = _skip_uncert
        return harness.Out(claims=claims, inputs=inputs, skip_defd=skip, info={"valid": valid},
                           observe={"mc": mc, "geo": geo, "npass": npass})

    return run


# ---------------------------------------------------------------------------------
# target mode
# ---------------------------------------------------------------------------------
class _TooStub:
    def __init__(self):
        self.calls = []

    def sun_moon_cut(self, times):
        self.calls.append(times)
        out = []
        for t in SymArray(times).a.reshape(-1):
            out.append(SV(t=z3.Bool("dark_" + str(t.term()).replace(" ", "")), kind="B"))
        return SymArray(out, "bool")


def target_run(N, method, sun_moon):
    def run(C):
        ns = _ns()
        G = ns["RegionGeomToO"]
        g = object.__new__(G)
        idx = list(range(N))
        g.times = symarr([f"t{i}" for i in idx])
        g.horizon_mask = symarr([f"hm{i}" for i in idx], "B")
        h_kept = [i for i in idx if bool(g.horizon_mask[i])]
        g.volume_mask = symarr([f"vm{i}" for i in h_kept], "B")
        kept = [i for i in h_kept if bool(g.volume_mask[h_kept.index(i)])]
        g.losPathLen = symarr([f"L{i}" for i in kept])
        g.sun_moon_cut = sun_moon
        g.too_source = _TooStub()
        trig = symarr([f"trig{i}" for i in kept])
        cosc = symarr([f"cosCh{i}" for i in kept])
        pex = symarr([f"pexit{i}" for i in kept])
        lenDec = symarr([f"lenDec{i}" for i in kept])
        thr, sn, sw = (SV(t=_R(n)) for n in ("thr", "specnorm", "specw"))
        C.assume(sn.t * sw.t == 1, sn.t > 0)
        for i in kept:
            C.assume(_R(f"pexit{i}") > 0, _R(f"pexit{i}") <= 1, _R(f"cosCh{i}") > 0, _R(f"cosCh{i}") <= 1, _R(f"lenDec{i}") >= 0, _R(f"L{i}") >= 0)
        stored = {}

        def store(names, cols):
            stored.update(dict(zip(names, cols)))

        mc, geo, npass, unc = g.mcintegral(trig, cosc, pex, thr, sn, sw, lenDec=lenDec, method=method, store=store)
        ref, refgeo, refn = z3.RealVal(0), z3.RealVal(0), z3.RealVal(0)
        contribs = []
        for i in kept:
            L, l, c = _R(f"L{i}"), _R(f"lenDec{i}"), _R(f"cosCh{i}")
            tan2 = (1 - c * c) / (c * c)
            area = z3.If(L > l, PI * (L - l) * (L - l) * tan2, 0)
            refgeo = refgeo + area
            ok = _R(f"trig{i}") >= thr.t
            if method == "Optical" and sun_moon:
                ok = z3.And(ok, z3.Bool(f"dark_t{i}"))
            contrib = z3.If(ok, area * core.rv(BSHR) * _R(f"pexit{i}"), 0)
            contribs.append(contrib)
            ref = ref + contrib
            refn = refn + z3.If(contrib != 0, 1, 0)
        ref, refgeo = ref / N, refgeo / N
        col = "tmcintopt" if method == "Optical" else "tmcintrad"
        claims = {
            "integral == 1/N_thrown * sum_kept [L>l] pi (L-l)^2 tan^2(theta_eff) 0.826 Pexit [trig>=thr][dark if optical]": SV.of(mc).term() == ref,
            "geometry-only == 1/N_thrown * sum_kept [L>l] pi (L-l)^2 tan^2(theta_eff)": SV.of(geo).term() == refgeo,
            "passing count": SV.of(npass).term() == refn,
            "integral <= 0.826 * geometry-only": SV.of(mc).term() <= core.rv(BSHR) * SV.of(geo).term(),
            f"per-event column stored as {col} only": z3.BoolVal(list(stored) == [col] and len(stored[col]) == len(kept)),
        }
        if kept:
            claims["stored per-event column == per-event contributions"] = z3.And(*[SV.of(stored[col][k]).term() == contribs[k] for k in range(len(kept))]) if col in stored else z3.BoolVal(False)
        ts = g.too_source.calls
        if method == "Optical" and sun_moon:
            ok = len(ts) == 1 and len(ts[0]) == len(kept) and all(SV.of(ts[0][k]).term().eq(_R(f"t{i}")) for k, i in enumerate(kept))
            claims["dark-sky cut evaluated once, on exactly the kept event times"] = z3.BoolVal(bool(ok))
        else:
            claims["dark-sky cut not evaluated (radio, or cut disabled)"] = z3.BoolVal(len(ts) == 0)
        inputs = {n: _R(n) for n in ("thr", "specnorm", "specw")}
        for i in kept:
            for n in ("trig", "cosCh", "pexit", "lenDec", "L"):
                inputs[f"{n}{i}"] = _R(f"{n}{i}")
            inputs[f"dark_t{i}"] = z3.Bool(f"dark_t{i}")
        skip = _skip_uncert
        return harness.Out(claims=claims, inputs=inputs, skip_defd=skip, info={"kept": kept, "N": N}, observe={"mc": mc, "geo": geo, "npass": npass})

    return run


def target_badmethod_run():
    def run(C):
        ns = _ns()
        g = object.__new__(ns["RegionGeomToO"])
        g.times = symarr(["t0"])
        g.losPathLen = symarr(["L0"])
        g.sun_moon_cut = True
        g.too_source = _TooStub()
        try:
            g.mcintegral(symarr(["trig0"]), symarr(["c0"]), symarr(["p0"]), SV(t=_R("thr")), SV(c=Fr(1)), SV(c=Fr(1)), lenDec=symarr(["l0"]), method="Both")
            raised = False
        except ValueError:
            raised = True
        return harness.Out(claims={"method other than Optical/Radio is rejected": z3.BoolVal(raised)})

    return run


# ---------------------------------------------------------------------------------
# wiring in compute()
# ---------------------------------------------------------------------------------
def wiring_run(mode, optical, radio):
    def run(C):
        from props import compute_model as cm

        rec = cm.run_compute(mode=mode, optical=optical, radio=radio, survivors=2)
        claims = {}
        calls = rec.mcintegral_calls
        want = (["Optical"] if optical else []) + (["Radio"] if radio else [])
        claims["one mcintegral call per enabled channel, optical first"] = z3.BoolVal([c["kwargs"].get("method") for c in calls] == want)
        meta = rec.table.meta
        for c in calls:
            m = c["kwargs"]["method"]
            a = c["args"]
            if m == "Optical":
                claims["optical: triggers = numPEs, cosine = costhetaChEff, threshold = photo_electron_threshold"] = z3.BoolVal(
                    a[0] is rec.vals["numPEs"] and a[1] is rec.vals["costhetaChEff"] and a[3] is rec.cfg.detector.optical.photo_electron_threshold)
                keys = ("OMCINT", "OMCINTGO", "ONEVPASS", "OMCINTUN")
            else:
                claims["radio: triggers = snrs, cosine = cos(max_cherenkov_angle), threshold = snr_threshold"] = z3.BoolVal(
                    a[0] is rec.vals["snrs"] and SV.of(a[1]).term().eq(SV.of(NP.cos(rec.cfg.simulation.max_cherenkov_angle)).term()) and a[3] is rec.cfg.detector.radio.snr_threshold)
                keys = ("RMCINT", "RMCINTGO", "RNEVPASS", "RMCINTUN")
            claims[f"{m}: exit probability, spectrum factors, lenDec passed through"] = z3.BoolVal(
                a[2] is rec.vals["tauExitProb"] and a[4] is rec.vals["mc_spec_norm"] and a[5] is rec.vals["spec_weights_sum"] and c["kwargs"]["lenDec"] is rec.vals["lenDec"])
            ret = c["ret"]
            claims[f"{m}: header keywords {keys} hold the matching return values"] = z3.BoolVal(
                all(k in meta and meta[k][0] is ret[j] for j, k in enumerate(keys)))
        for ch, keys in (("optical", ("OMCINT", "OMCINTGO", "ONEVPASS", "OMCINTUN")), ("radio", ("RMCINT", "RMCINTGO", "RNEVPASS", "RMCINTUN"))):
            if not {"optical": optical, "radio": radio}[ch]:
                claims[f"{ch} disabled: none of its keywords present"] = z3.BoolVal(not any(k in meta for k in keys))
        return harness.Out(claims=claims, skip_defd=lambda tag, where: "wiring job: numeric primitives are abstracted (uninterpreted); definedness of the stages belongs to C07/C08")

    return run


# ---------------------------------------------------------------------------------
def job_diffuse(N, tier, scalar=False):
    return harness.run_job(f"diffuse(N={N},{'scalar cos (radio)' if scalar else 'per-event cos (optical)'})", diffuse_run(N, scalar),
                           timeout_ms=60000 if tier == "quick" else 600000, second=(tier == "thorough"))


def job_target(N, method, sun_moon, tier):
    return harness.run_job(f"target(N={N},{method},sun_moon_cuts={sun_moon})", target_run(N, method, sun_moon),
                           timeout_ms=60000 if tier == "quick" else 600000, second=(tier == "thorough"))


def job_badmethod(tier):
    return harness.run_job("target(bad method)", target_badmethod_run(), timeout_ms=10000)


def job_wiring(mode, optical, radio, tier):
    return harness.run_job(f"wiring({mode},optical={optical},radio={radio})", wiring_run(mode, optical, radio), timeout_ms=10000)


def jobs(tier, seed):
    nd = 3 if tier == "quick" else 4
    nt = 2 if tier == "quick" else 3
    out = [("d", "job_diffuse", {"N": nd, "tier": tier}), ("ds", "job_diffuse", {"N": nd, "tier": tier, "scalar": True}),
           ("d1", "job_diffuse", {"N": 1, "tier": tier})]
    for method in ("Optical", "Radio"):
        for sm in (True, False):
            out.append((f"t{method}{sm}", "job_target", {"N": nt, "method": method, "sun_moon": sm, "tier": tier}))
    out.append(("bad", "job_badmethod", {"tier": tier}))
    for mode in ("Diffuse", "Target"):
        for o, r in ((True, True), (True, False), (False, True)):
            out.append((f"w{mode}{o}{r}", "job_wiring", {"mode": mode, "optical": o, "radio": r, "tier": tier}))
    return out


# ---------------------------------------------------------------------------------
# replay on the real code
# ---------------------------------------------------------------------------------
def _real_diffuse(m, N, scalar):
    import numpy as np

    from nuspacesim.simulation.geometry.region_geometry import RegionGeom

    g = object.__new__(RegionGeom)
    A = lambda n: np.array([m.get(f"{n}{i}", 0.5) for i in range(N)], dtype=float)  # noqa
    g.costhetaTrSubV, g.costhetaTrSubN, g.costhetaNSubV, g.betaTrSubN = A("cTrV"), A("cTrN"), A("cNV"), A("beta")
    g.event_mask = np.logical_and(g.costhetaTrSubN >= 0, g.betaTrSubN < 42)
    g.mcnorm = m.get("mcnorm", 1.0)
    valid = [i for i in range(N) if g.event_mask[i]]
    V = lambda n, d: np.array([m.get(f"{n}{i}", d) for i in valid], dtype=float)  # noqa
    trig, pex = V("trig", 1.0), V("pexit", 0.5)
    cosc = m.get("cosCh", 0.9) if scalar else V("cosCh", 0.9)
    out = {}
    with np.errstate(all="ignore"):
        for nm, th in (("a", m.get("thr", 0.0)), ("b", m.get("thr2", 0.0))):
            out[nm] = g.mcintegral(trig, cosc, pex, th, m.get("specnorm", 1.0), m.get("specw", 1.0))
    w = g.costhetaTrSubN / g.costhetaNSubV / g.costhetaTrSubV
    ref = refgeo = 0.0
    refn = 0
    for k, i in enumerate(valid):
        cc = cosc if scalar else cosc[k]
        incone = g.costhetaTrSubV[i] >= cc
        if incone:
            refgeo += w[i]
            if trig[k] >= m.get("thr", 0.0):
                c = w[i] * 0.826 * pex[k]
                ref += c
                refn += int(c != 0)
    ref, refgeo = ref * g.mcnorm / N, refgeo * g.mcnorm / N
    return out, ref, refgeo, refn


def _close(a, b, tol=1e-9):
    return abs(a - b) <= tol * (abs(a) + abs(b)) + 1e-12


def replay(v):
    m = v.get("model") or {}
    job, ob = v.get("job", ""), v["obligation"]
    if job.startswith("diffuse"):
        N = int(job.split("N=")[1].split(",")[0])
        scalar = "scalar" in job
        out, ref, refgeo, refn = _real_diffuse(m, N, scalar)
        mc, geo, n, _ = out["a"]
        mc2 = out["b"][0]
        bad = None
        if "integral ==" in ob and not _close(mc, ref):
            bad = f"mcintegral returned {mc}, reference estimator gives {ref}"
        elif "geometry-only ==" in ob and not _close(geo, refgeo):
            bad = f"geometry-only returned {geo}, reference gives {refgeo}"
        elif "passing count" in ob and n != refn:
            bad = f"passing count {n}, reference {refn}"
        elif "<= 0.826" in ob and mc > 0.826 * geo * (1 + 1e-9) + 1e-12:
            bad = f"integral {mc} exceeds 0.826*geo {0.826*geo}"
        elif "non-increasing" in ob and m.get("thr", 0) <= m.get("thr2", 0) and mc2 > mc * (1 + 1e-9) + 1e-12:
            bad = f"integral rose from {mc} to {mc2} when the threshold rose"
        elif "integral >= 0" in ob and mc < -1e-12:
            bad = f"negative integral {mc}"
        if bad:
            return {"reproduced": True, "key": "diffuse mcintegral: " + ob.split("/", 1)[-1], "detail": bad + f" for inputs {m}"}
        return {"reproduced": False, "key": None, "detail": "real code satisfies the predicate at the model point"}
    return {"reproduced": False, "key": None, "detail": "structural claim (no numeric replay)"}


def validate(seed, tier):
    N = 3

    def sampler(rng):
        v = {"mcnorm": float(rng.uniform(1, 1e6)), "thr": float(rng.uniform(0, 5)), "thr2": float(rng.uniform(0, 5)), "specnorm": 2.0, "specw": 0.5}
        for i in range(N):
            v[f"cTrV{i}"] = float(rng.uniform(0.9, 1)); v[f"cTrN{i}"] = float(rng.uniform(-0.3, 1)); v[f"cNV{i}"] = float(rng.uniform(0.05, 1))
            v[f"beta{i}"] = float(rng.uniform(0, 60)); v[f"trig{i}"] = float(rng.uniform(0, 5)); v[f"cosCh{i}"] = float(rng.uniform(0.85, 1)); v[f"pexit{i}"] = float(rng.uniform(1e-6, 1))
        return v

    def real(v):
        out, ref, refgeo, refn = _real_diffuse(v, N, False)
        mc, geo, n, _ = out["a"]
        return {"mc": float(mc), "geo": float(geo), "npass": float(n)}

    return harness.validate(diffuse_run(N), sampler, real, 60, seed)


MANIFEST_ENTRY = {
    "level_text": "Bounded symbolic execution of the real RegionGeom.mcintegral and RegionGeomToO.mcintegral with every per-event column, threshold, normalisation and mask symbolic (all validity / horizon / volume patterns of N<=3 (quick) or N<=4 (thorough) thrown events); the returned integral, geometry-only integral and passing count are proved equal (nlsat, exact reals) to an independent reference estimator written from the statement, plus permutation invariance, monotonicity in the threshold, the 0.826 bound, /N_thrown, dark-sky cut iff Optical; the wiring of compute() is checked on the real compute() body with recording stage stubs.",
    "level_note": "REAL arithmetic; bounded N; sun/moon ephemerides stubbed by free Booleans per event time; uncertainty return value not claimed; compute() wiring uses stage stubs (identity of the objects passed), not the numeric stages.",
    "technique": "symbolic execution of the real NumPy source (DFS over mask patterns) + z3 qfnra-nlsat equivalence against a reference estimator",
}
