"""C03 -- reported acceptance integrals follow from stored columns and trigger rules."""
from __future__ import annotations

import itertools
import math
from fractions import Fraction as Fr

import z3

from symnp import core, harness, load
from symnp.arr import SymArray, symarr
from symnp.core import PI, SV
from symnp.shim import NP

ID = "C03"
MOD = "nuspacesim.simulation.geometry.region_geometry"
BSHR = Fr(826, 1000)

META = {
    "bounds": {
        "quick": "N_thrown = 3 (diffuse: all 8 validity patterns) / 2 (target: all 9 horizon/volume patterns); every per-event column, threshold, normalisation, dark-sky flag symbolic; both methods; sun_moon_cuts on/off",
        "thorough": "N_thrown = 4 (diffuse, 16 patterns) / 3 (target, 27 patterns); second solver on every claim",
    },
    "outside_bounds": ["floating-point summation order (REAL mode)", "N_thrown > 4", "the statistical-uncertainty return value (np.var with ddof=1 is undefined for a single surviving event; not part of the property)"],
    "stubs": ["ToOEvent.sun_moon_cut -> one fresh Bool per time value it is given (records its argument)",
              "store= callable -> recording dict", "compute(): every stage class replaced by a recorder returning symbolic columns (wiring clause only)"],
    "assumptions": ["REAL mode", "preconditions of the statement: 0 < cos(theta_TrV), cos(theta_NV) <= 1; exit probabilities in (0,1]; effective Cherenkov cosines in (0,1] (target mode takes tan(arccos c)); spec_norm*spec_weights_sum = 1 (C12), spec_norm > 0; mcnorm > 0; decay lengths >= 0"],
}
LEDGER = {"quick": 1440, "thorough": 2500}


def _ns(extra=None):
    return load.load(MOD, extra)


def _R(n):
    return z3.Real(n)


def _skip_uncert(tag, where):
    if tag.startswith("var") or "uncert" in harness.src_line(where):
        return "statistical uncertainty (np.var with ddof=1, undefined for < 2 surviving events) is not part of the property"
    return None


# ---------------------------------------------------------------------------------
# diffuse mode
# ---------------------------------------------------------------------------------
def diffuse_run(N, costheta_scalar=False):
    def run(C):
        ns = _ns()
        RegionGeom = ns["RegionGeom"]
        np = ns["np"]
        g = object.__new__(RegionGeom)
        idx = list(range(N))
        g.costhetaTrSubV = symarr([f"cTrV{i}" for i in idx])
        g.costhetaTrSubN = symarr([f"cTrN{i}" for i in idx])
        g.costhetaNSubV = symarr([f"cNV{i}" for i in idx])
        g.betaTrSubN = symarr([f"beta{i}" for i in idx])
        g.event_mask = np.logical_and(g.costhetaTrSubN >= 0, g.betaTrSubN < 42)
        g.mcnorm = SV(t=_R("mcnorm"))
        # the configured number of events need not be the number thrown in this batch (throw(u) with any (4, N) array is public)
        g.config = type("Cfg", (), {"simulation": type("S", (), {"thrown_events": N + 7, "mode": "Diffuse"})()})()
        valid = [i for i in idx if bool(g.event_mask[i])]  # forks: 2^N validity patterns
        trig = symarr([f"trig{i}" for i in valid])
        cosc = SV(t=_R("cosCh")) if costheta_scalar else symarr([f"cosCh{i}" for i in valid])
        pex = symarr([f"pexit{i}" for i in valid])
        thr, thr2, sn, sw = (SV(t=_R(n)) for n in ("thr", "thr2", "specnorm", "specw"))
        C.assume(g.mcnorm.t > 0, sn.t * sw.t == 1, sn.t > 0)
        for i in idx:
            C.assume(_R(f"cTrV{i}") > 0, _R(f"cTrV{i}") <= 1, _R(f"cNV{i}") > 0, _R(f"cNV{i}") <= 1, _R(f"cTrN{i}") <= 1, _R(f"cTrN{i}") >= -1)
        for i in valid:
            C.assume(_R(f"pexit{i}") > 0, _R(f"pexit{i}") <= 1)
            if not costheta_scalar:
                C.assume(_R(f"cosCh{i}") >= -1, _R(f"cosCh{i}") <= 1)
        if costheta_scalar:
            C.assume(cosc.t >= -1, cosc.t <= 1)
        snap = {n: [SV.of(e).term() for e in a.a] for n, a in (("triggers", trig), ("tauexitprob", pex))}
        trig.tag, pex.tag = "triggers", "tauexitprob"
        if not costheta_scalar:
            snap["costheta"] = [SV.of(e).term() for e in cosc.a]
            cosc.tag = "costheta"
        ev0 = len(C.events)
        mc, geo, npass, unc = g.mcintegral(trig, cosc, pex, thr, sn, sw)
        mutated = [e for e in C.events[ev0:] if e[0] == "mutate-input"]
        unchanged = all(all(SV.of(e).term().eq(t0) for e, t0 in zip(a.a, snap[n])) for n, a in (("triggers", trig), ("tauexitprob", pex)) + (() if costheta_scalar else (("costheta", cosc),)))
        mc_r, geo_r, npass_r, _ = g.mcintegral(trig, cosc, pex, thr, sn, sw)
        mc2, geo2, npass2, _ = g.mcintegral(trig, cosc, pex, thr2, sn, sw)
        # reference estimator from the columns
        ref, refgeo, refn = z3.RealVal(0), z3.RealVal(0), z3.RealVal(0)
        for k, i in enumerate(valid):
            w = _R(f"cTrN{i}") / _R(f"cNV{i}") / _R(f"cTrV{i}")
            cc = cosc.t if costheta_scalar else _R(f"cosCh{i}")
            incone = _R(f"cTrV{i}") >= cc
            passes = z3.And(incone, _R(f"trig{i}") >= thr.t)
            refgeo = refgeo + z3.If(incone, w, 0)
            contrib = w * core.rv(BSHR) * _R(f"pexit{i}")
            ref = ref + z3.If(passes, contrib, 0)
            refn = refn + z3.If(z3.And(passes, contrib != 0), 1, 0)
        ref = ref * g.mcnorm.t / N
        refgeo = refgeo * g.mcnorm.t / N
        claims = {
            "integral == mcnorm/N_thrown * sum_valid [in cone & trig>=thr] w*0.826*Pexit": SV.of(mc).term() == ref,
            "geometry-only == mcnorm/N_thrown * sum_valid [in cone] w": SV.of(geo).term() == refgeo,
            "passing count == number of non-zero contributions": SV.of(npass).term() == refn,
            "integral <= 0.826 * geometry-only": SV.of(mc).term() <= core.rv(BSHR) * SV.of(geo).term(),
            "non-increasing in threshold": z3.Implies(thr.t <= thr2.t, SV.of(mc2).term() <= SV.of(mc).term()),
            "geometry-only independent of threshold": SV.of(geo).term() == SV.of(geo2).term(),
            "integral >= 0": SV.of(mc).term() >= 0,
            "the per-event input arrays are not modified by the call": z3.BoolVal(not mutated and unchanged),
            "a repeated call with the same arrays returns the same values": z3.And(SV.of(mc_r).term() == SV.of(mc).term(), SV.of(geo_r).term() == SV.of(geo).term(),
                                                                                   SV.of(npass_r).term() == SV.of(npass).term()),
        }
        # permutation invariance (reverse and rotate the thrown events)
        if N >= 2:
            for pname, perm in (("reverse", idx[::-1]), ("rotate", idx[1:] + idx[:1])):
                g2 = object.__new__(RegionGeom)
                for att in ("costhetaTrSubV", "costhetaTrSubN", "costhetaNSubV", "betaTrSubN"):
                    setattr(g2, att, SymArray(getattr(g, att).a[perm].copy()))
                g2.event_mask = np.logical_and(g2.costhetaTrSubN >= 0, g2.betaTrSubN < 42)
                g2.mcnorm = g.mcnorm
                g2.config = g.config
                pv = [i for i in perm if i in valid]
                pos = [valid.index(i) for i in pv]
                trig_p, pex_p = SymArray(trig.a[pos].copy()), SymArray(pex.a[pos].copy())
                cos_p = cosc if costheta_scalar else SymArray(cosc.a[pos].copy())
                mcp, geop, npp, _ = g2.mcintegral(trig_p, cos_p, pex_p, thr, sn, sw)
                claims[f"permutation invariant ({pname})"] = z3.And(SV.of(mcp).term() == SV.of(mc).term(), SV.of(geop).term() == SV.of(geo).term(),
                                                                   SV.of(npp).term() == SV.of(npass).term())
        inputs = {n: _R(n) for n in ["mcnorm", "thr", "thr2", "specnorm", "specw"] + (["cosCh"] if costheta_scalar else [])}
        for i in idx:
            for n in ("cTrV", "cTrN", "cNV", "beta"):
                inputs[f"{n}{i}"] = _R(f"{n}{i}")
        for i in valid:
            for n in ("trig", "pexit") + (() if costheta_scalar else ("cosCh",)):
                inputs[f"{n}{i}"] = _R(f"{n}{i}")
        skip = _skip_uncert
        return harness.Out(claims=claims, inputs=inputs, skip_defd=skip, info={"valid": valid},
                           observe={"mc": mc, "geo": geo, "npass": npass})

    return run


# ---------------------------------------------------------------------------------
# target mode
# ---------------------------------------------------------------------------------
class _TooStub:
    def __init__(self):
        self.calls = []

    def sun_moon_cut(self, times):
        self.calls.append(times)
        out = []
        for t in SymArray(times).a.reshape(-1):
            out.append(SV(t=z3.Bool("dark_" + str(t.term()).replace(" ", "")), kind="B"))
        return SymArray(out, "bool")


def target_run(N, method, sun_moon):
    def run(C):
        ns = _ns()
        G = ns["RegionGeomToO"]
        g = object.__new__(G)
        idx = list(range(N))
        g.times = symarr([f"t{i}" for i in idx])
        g.horizon_mask = symarr([f"hm{i}" for i in idx], "B")
        h_kept = [i for i in idx if bool(g.horizon_mask[i])]
        g.volume_mask = symarr([f"vm{i}" for i in h_kept], "B")
        kept = [i for i in h_kept if bool(g.volume_mask[h_kept.index(i)])]
        g.losPathLen = symarr([f"L{i}" for i in kept])
        g.sun_moon_cut = sun_moon
        g.too_source = _TooStub()
        trig = symarr([f"trig{i}" for i in kept])
        cosc = symarr([f"cosCh{i}" for i in kept])
        pex = symarr([f"pexit{i}" for i in kept])
        lenDec = symarr([f"lenDec{i}" for i in kept])
        thr, sn, sw = (SV(t=_R(n)) for n in ("thr", "specnorm", "specw"))
        C.assume(sn.t * sw.t == 1, sn.t > 0)
        for i in kept:
            C.assume(_R(f"pexit{i}") > 0, _R(f"pexit{i}") <= 1, _R(f"cosCh{i}") > 0, _R(f"cosCh{i}") <= 1, _R(f"lenDec{i}") >= 0, _R(f"L{i}") >= 0)
        stored = {}

        def store(names, cols):
            stored.update(dict(zip(names, cols)))

        snapL = [SV.of(e).term() for e in g.losPathLen.a]
        snapI = {n: [SV.of(e).term() for e in a.a] for n, a in (("triggers", trig), ("costhetaChEff", cosc), ("tauexitprob", pex), ("lenDec", lenDec))}
        for n, a in (("triggers", trig), ("costhetaChEff", cosc), ("tauexitprob", pex), ("lenDec", lenDec)):
            a.tag = n
        ev0 = len(C.events)
        mc, geo, npass, unc = g.mcintegral(trig, cosc, pex, thr, sn, sw, lenDec=lenDec, method=method, store=store)
        ts_first = list(g.too_source.calls)
        mutated = [e for e in C.events[ev0:] if e[0] == "mutate-input"]
        unchanged = all(all(SV.of(e).term().eq(t0) for e, t0 in zip(a.a, snapI[n])) for n, a in (("triggers", trig), ("costhetaChEff", cosc), ("tauexitprob", pex), ("lenDec", lenDec)))
        geom_same = all(SV.of(e).term().eq(t0) for e, t0 in zip(g.losPathLen.a, snapL))
        mc_r, geo_r, npass_r, _ = g.mcintegral(trig, cosc, pex, thr, sn, sw, lenDec=lenDec, method=method)
        ref, refgeo, refn = z3.RealVal(0), z3.RealVal(0), z3.RealVal(0)
        contribs = []
        for i in kept:
            L, l, c = _R(f"L{i}"), _R(f"lenDec{i}"), _R(f"cosCh{i}")
            tan2 = (1 - c * c) / (c * c)
            area = z3.If(L > l, PI * (L - l) * (L - l) * tan2, 0)
            refgeo = refgeo + area
            ok = _R(f"trig{i}") >= thr.t
            if method == "Optical" and sun_moon:
                ok = z3.And(ok, z3.Bool(f"dark_t{i}"))
            contrib = z3.If(ok, area * core.rv(BSHR) * _R(f"pexit{i}"), 0)
            contribs.append(contrib)
            ref = ref + contrib
            refn = refn + z3.If(contrib != 0, 1, 0)
        ref, refgeo = ref / N, refgeo / N
        col = "tmcintopt" if method == "Optical" else "tmcintrad"
        claims = {
            "integral == 1/N_thrown * sum_kept [L>l] pi (L-l)^2 tan^2(theta_eff) 0.826 Pexit [trig>=thr][dark if optical]": SV.of(mc).term() == ref,
            "geometry-only == 1/N_thrown * sum_kept [L>l] pi (L-l)^2 tan^2(theta_eff)": SV.of(geo).term() == refgeo,
            "passing count": SV.of(npass).term() == refn,
            "integral <= 0.826 * geometry-only": SV.of(mc).term() <= core.rv(BSHR) * SV.of(geo).term(),
            f"per-event column stored as {col} only": z3.BoolVal(list(stored) == [col] and len(stored[col]) == len(kept)),
        }
        claims["the per-event input arrays are not modified by the call"] = z3.BoolVal(not mutated and unchanged)
        claims["the geometry's stored path lengths are not modified by the call"] = z3.BoolVal(geom_same)
        claims["a repeated call on the same geometry returns the same values"] = z3.And(SV.of(mc_r).term() == SV.of(mc).term(), SV.of(geo_r).term() == SV.of(geo).term(),
                                                                                        SV.of(npass_r).term() == SV.of(npass).term())
        if kept:
            claims["stored per-event column == per-event contributions"] = z3.And(*[SV.of(stored[col][k]).term() == contribs[k] for k in range(len(kept))]) if col in stored else z3.BoolVal(False)
        ts = ts_first
        if method == "Optical" and sun_moon:
            ok = len(ts) == 1 and len(ts[0]) == len(kept) and all(SV.of(ts[0][k]).term().eq(_R(f"t{i}")) for k, i in enumerate(kept))
            claims["dark-sky cut evaluated once, on exactly the kept event times"] = z3.BoolVal(bool(ok))
        else:
            claims["dark-sky cut not evaluated (radio, or cut disabled)"] = z3.BoolVal(len(ts) == 0)
        inputs = {n: _R(n) for n in ("thr", "specnorm", "specw")}
        for i in kept:
            for n in ("trig", "cosCh", "pexit", "lenDec", "L"):
                inputs[f"{n}{i}"] = _R(f"{n}{i}")
            inputs[f"dark_t{i}"] = z3.Bool(f"dark_t{i}")
        skip = _skip_uncert
        return harness.Out(claims=claims, inputs=inputs, skip_defd=skip, info={"kept": kept, "N": N}, observe={"mc": mc, "geo": geo, "npass": npass})

    return run


def target_badmethod_run():
    def run(C):
        ns = _ns()
        g = object.__new__(ns["RegionGeomToO"])
        g.times = symarr(["t0"])
        g.losPathLen = symarr(["L0"])
        g.sun_moon_cut = True
        g.too_source = _TooStub()
        try:
            g.mcintegral(symarr(["trig0"]), symarr(["c0"]), symarr(["p0"]), SV(t=_R("thr")), SV(c=Fr(1)), SV(c=Fr(1)), lenDec=symarr(["l0"]), method="Both")
            raised = False
        except ValueError:
            raised = True
        return harness.Out(claims={"method other than Optical/Radio is rejected": z3.BoolVal(raised)})

    return run


# ---------------------------------------------------------------------------------
# wiring in compute()
# ---------------------------------------------------------------------------------
def wiring_run(mode, optical, radio):
    def run(C):
        from props import compute_model as cm

        rec = cm.run_compute(mode=mode, optical=optical, radio=radio, survivors=2)
        claims = {}
        calls = rec.mcintegral_calls
        want = (["Optical"] if optical else []) + (["Radio"] if radio else [])
        claims["one mcintegral call per enabled channel, optical first"] = z3.BoolVal([c["kwargs"].get("method") for c in calls] == want)
        meta = rec.table.meta
        for c in calls:
            m = c["kwargs"]["method"]
            a = c["args"]
            if m == "Optical":
                claims["optical: triggers = numPEs, cosine = costhetaChEff, threshold = photo_electron_threshold"] = z3.BoolVal(
                    a[0] is rec.vals["numPEs"] and a[1] is rec.vals["costhetaChEff"] and a[3] is rec.cfg.detector.optical.photo_electron_threshold)
                keys = ("OMCINT", "OMCINTGO", "ONEVPASS", "OMCINTUN")
            else:
                claims["radio: triggers = snrs, cosine = cos(max_cherenkov_angle), threshold = snr_threshold"] = z3.BoolVal(
                    a[0] is rec.vals["snrs"] and SV.of(a[1]).term().eq(SV.of(NP.cos(rec.cfg.simulation.max_cherenkov_angle)).term()) and a[3] is rec.cfg.detector.radio.snr_threshold)
                keys = ("RMCINT", "RMCINTGO", "RNEVPASS", "RMCINTUN")
            claims[f"{m}: exit probability, spectrum factors, lenDec passed through"] = z3.BoolVal(
                a[2] is rec.vals["tauExitProb"] and a[4] is rec.vals["mc_spec_norm"] and a[5] is rec.vals["spec_weights_sum"] and c["kwargs"]["lenDec"] is rec.vals["lenDec"])
            ret = c["ret"]
            claims[f"{m}: header keywords {keys} hold the matching return values"] = z3.BoolVal(
                all(k in meta and meta[k][0] is ret[j] for j, k in enumerate(keys)))
        for ch, keys in (("optical", ("OMCINT", "OMCINTGO", "ONEVPASS", "OMCINTUN")), ("radio", ("RMCINT", "RMCINTGO", "RNEVPASS", "RMCINTUN"))):
            if not {"optical": optical, "radio": radio}[ch]:
                claims[f"{ch} disabled: none of its keywords present"] = z3.BoolVal(not any(k in meta for k in keys))
        return harness.Out(claims=claims, skip_defd=lambda tag, where: "wiring job: numeric primitives are abstracted (uninterpreted); definedness of the stages belongs to C07/C08")

    return run


# ---------------------------------------------------------------------------------
def job_diffuse(N, tier, scalar=False):
    return harness.run_job(f"diffuse(N={N},{'scalar cos (radio)' if scalar else 'per-event cos (optical)'})", diffuse_run(N, scalar),
                           timeout_ms=60000 if tier == "quick" else 600000, second=(tier == "thorough"))


def job_target(N, method, sun_moon, tier):
    return harness.run_job(f"target(N={N},{method},sun_moon_cuts={sun_moon})", target_run(N, method, sun_moon),
                           timeout_ms=60000 if tier == "quick" else 600000, second=(tier == "thorough"))


def job_badmethod(tier):
    return harness.run_job("target(bad method)", target_badmethod_run(), timeout_ms=10000)


def job_wiring(mode, optical, radio, tier):
    return harness.run_job(f"wiring({mode},optical={optical},radio={radio})", wiring_run(mode, optical, radio), timeout_ms=10000)


def jobs(tier, seed):
    nd = 3 if tier == "quick" else 4
    nt = 2 if tier == "quick" else 3
    out = [("d", "job_diffuse", {"N": nd, "tier": tier}), ("ds", "job_diffuse", {"N": nd, "tier": tier, "scalar": True}),
           ("d1", "job_diffuse", {"N": 1, "tier": tier})]
    for method in ("Optical", "Radio"):
        for sm in (True, False):
            out.append((f"t{method}{sm}", "job_target", {"N": nt, "method": method, "sun_moon": sm, "tier": tier}))
    out.append(("bad", "job_badmethod", {"tier": tier}))
    for mode in ("Diffuse", "Target"):
        for o, r in ((True, True), (True, False), (False, True)):
            out.append((f"w{mode}{o}{r}", "job_wiring", {"mode": mode, "optical": o, "radio": r, "tier": tier}))
    return out


# ---------------------------------------------------------------------------------
# replay on the real code
# ---------------------------------------------------------------------------------
def _real_diffuse(m, N, scalar):
    import numpy as np

    from nuspacesim.simulation.geometry.region_geometry import RegionGeom

    g = object.__new__(RegionGeom)
    A = lambda n: np.array([m.get(f"{n}{i}", 0.5) for i in range(N)], dtype=float)  # noqa
    g.costhetaTrSubV, g.costhetaTrSubN, g.costhetaNSubV, g.betaTrSubN = A("cTrV"), A("cTrN"), A("cNV"), A("beta")
    g.event_mask = np.logical_and(g.costhetaTrSubN >= 0, g.betaTrSubN < 42)
    g.mcnorm = m.get("mcnorm", 1.0)
    g.config = type("Cfg", (), {"simulation": type("S", (), {"thrown_events": N + 7, "mode": "Diffuse"})()})()
    valid = [i for i in range(N) if g.event_mask[i]]
    V = lambda n, d: np.array([m.get(f"{n}{i}", d) for i in valid], dtype=float)  # noqa
    trig, pex = V("trig", 1.0), V("pexit", 0.5)
    cosc = m.get("cosCh", 0.9) if scalar else V("cosCh", 0.9)
    out = {}
    with np.errstate(all="ignore"):
        for nm, th in (("a", m.get("thr", 0.0)), ("b", m.get("thr2", 0.0))):
            out[nm] = g.mcintegral(trig, cosc, pex, th, m.get("specnorm", 1.0), m.get("specw", 1.0))
    w = g.costhetaTrSubN / g.costhetaNSubV / g.costhetaTrSubV
    ref = refgeo = 0.0
    refn = 0
    for k, i in enumerate(valid):
        cc = cosc if scalar else cosc[k]
        incone = g.costhetaTrSubV[i] >= cc
        if incone:
            refgeo += w[i]
            if trig[k] >= m.get("thr", 0.0):
                c = w[i] * 0.826 * pex[k]
                ref += c
                refn += int(c != 0)
    ref, refgeo = ref * g.mcnorm / N, refgeo * g.mcnorm / N
    return out, ref, refgeo, refn


def _close(a, b, tol=1e-9):
    return abs(a - b) <= tol * (abs(a) + abs(b)) + 1e-12


def _replay_sequences():
    """Real code, both modes: two consecutive mcintegral calls with the same arrays, permuted
    events, input preservation; each compared with an independent numpy estimator."""
    import numpy as np

    from nuspacesim.simulation.geometry.region_geometry import RegionGeom, RegionGeomToO

    rng = np.random.default_rng(7)
    N = 40
    bad = []
    # ---- diffuse
    g = object.__new__(RegionGeom)
    g.costhetaTrSubV, g.costhetaTrSubN, g.costhetaNSubV = rng.uniform(0.95, 1, N), rng.uniform(-0.2, 1, N), rng.uniform(0.05, 1, N)
    g.betaTrSubN = rng.uniform(0, 60, N)
    g.event_mask = np.logical_and(g.costhetaTrSubN >= 0, g.betaTrSubN < 42)
    g.mcnorm = 3.7
    g.config = type("Cfg", (), {"simulation": type("S", (), {"thrown_events": 1000, "mode": "Diffuse"})()})()
    n = int(g.event_mask.sum())
    trig, cosc, pex = rng.uniform(0, 5, n), rng.uniform(0.9, 1, n), rng.uniform(0.01, 1, n)

    def ref_d(thr, tr=trig, cc=cosc, px=pex, gg=g):
        w = (gg.costhetaTrSubN / gg.costhetaNSubV / gg.costhetaTrSubV)[gg.event_mask]
        inc = gg.costhetaTrSubV[gg.event_mask] >= cc
        return gg.mcnorm / len(gg.betaTrSubN) * np.sum(w * 0.826 * px * inc * (tr >= thr)), gg.mcnorm / len(gg.betaTrSubN) * np.sum(w * inc)

    keep = (trig.copy(), cosc.copy(), pex.copy())
    with np.errstate(all="ignore"):
        r1 = g.mcintegral(trig, cosc, pex, 2.0, 1.0, 1.0)
        r2 = g.mcintegral(trig, cosc, pex, 2.0, 1.0, 1.0)
        r3 = g.mcintegral(trig, cosc, pex, 1.0, 1.0, 1.0)
    e1, eg = ref_d(2.0, *keep)
    if not all(np.array_equal(a, b) for a, b in zip(keep, (trig, cosc, pex))):
        bad.append("diffuse mcintegral modifies its input arrays")
    if abs(r1[0] - e1) > 1e-9 * abs(e1) or abs(r1[1] - eg) > 1e-9 * abs(eg):
        bad.append(f"diffuse: first call {r1[0]} vs reference {e1}")
    if abs(r2[0] - r1[0]) > 1e-12 * abs(r1[0]) or r2[2] != r1[2]:
        bad.append(f"diffuse: second call with the same arrays gives {r2[0]} instead of {r1[0]}")
    if r3[0] < r1[0] * (1 - 1e-12):
        bad.append(f"diffuse: integral rises from {r3[0]} (threshold 1) to {r1[0]} (threshold 2)")
    with np.errstate(all="ignore"):
        r4 = g.mcintegral(trig, cosc, pex, 2.0, 4.0, 0.25)  # power-law spectrum factors: spec_norm * spec_weights_sum == 1
    if abs(r4[0] - e1) > 1e-9 * abs(e1):
        bad.append(f"diffuse: with spectrum factors (4, 1/4), whose product is 1, the integral is {r4[0]} instead of {e1}")
    # permutation
    perm = rng.permutation(N)
    g2 = object.__new__(RegionGeom)
    for a in ("costhetaTrSubV", "costhetaTrSubN", "costhetaNSubV", "betaTrSubN"):
        setattr(g2, a, getattr(g, a)[perm])
    g2.event_mask = g.event_mask[perm]
    g2.mcnorm = g.mcnorm
    g2.config = g.config
    idx = np.cumsum(g.event_mask) - 1
    pv = idx[perm][g.event_mask[perm]]
    with np.errstate(all="ignore"):
        rp = g2.mcintegral(keep[0][pv].copy(), keep[1][pv].copy(), keep[2][pv].copy(), 2.0, 1.0, 1.0)
    if abs(rp[0] - e1) > 1e-9 * abs(e1):
        bad.append(f"diffuse: permuted events give {rp[0]} instead of {e1}")
    # ---- target
    for method in ("Optical", "Radio"):
        t = object.__new__(RegionGeomToO)
        M = 30
        t.times = np.arange(M + 5)
        t.losPathLen = rng.uniform(100, 2000, M)
        t.sun_moon_cut = False
        L0 = t.losPathLen.copy()
        trig, cosc, pex, ld = rng.uniform(0, 5, M), rng.uniform(0.99, 1, M), rng.uniform(0.01, 1, M), rng.uniform(0, 1500, M)
        keep = (trig.copy(), cosc.copy(), pex.copy(), ld.copy())
        with np.errstate(all="ignore"):
            a1 = t.mcintegral(trig, cosc, pex, 2.0, 1.0, 1.0, lenDec=ld, method=method)
            a2 = t.mcintegral(trig, cosc, pex, 2.0, 1.0, 1.0, lenDec=ld, method=method)
        area = np.where(L0 - keep[3] > 0, np.pi * (L0 - keep[3]) ** 2 * np.tan(np.arccos(keep[1])) ** 2, 0.0)
        e = np.sum(area * 0.826 * keep[2] * (keep[0] >= 2.0)) / len(t.times)
        if not np.array_equal(t.losPathLen, L0):
            bad.append(f"target ({method}): mcintegral modifies the geometry's stored path lengths")
        if not all(np.array_equal(x, y) for x, y in zip(keep, (trig, cosc, pex, ld))):
            bad.append(f"target ({method}): mcintegral modifies its input arrays")
        if abs(a1[0] - e) > 1e-9 * abs(e):
            bad.append(f"target ({method}): first call {a1[0]} vs reference {e}")
        egeo = np.sum(area) / len(t.times)
        if abs(a1[1] - egeo) > 1e-9 * abs(egeo):
            bad.append(f"target ({method}): geometry-only integral {a1[1]} vs reference {egeo} (only the path beyond the decay point counts; {int((L0 <= keep[3]).sum())} of {M} events decay behind the detector)")
        npass = int(np.count_nonzero((area > 0) & (keep[0] >= 2.0)))
        if int(a1[2]) != npass:
            bad.append(f"target ({method}): passing count {a1[2]} vs reference {npass}")
        if abs(a2[0] - a1[0]) > 1e-12 * abs(a1[0]) or abs(a2[1] - a1[1]) > 1e-12 * abs(a1[1]):
            bad.append(f"target ({method}): second call gives {a2[0]} / {a2[1]} instead of {a1[0]} / {a1[1]}")
        # dark-sky cut: a source whose verdict depends on the event time; the cut applies to the optical channel only, is
        # evaluated at each kept event's own time and can only remove events
        t.horizon_mask = np.arange(M + 5) < M + 2
        t.volume_mask = np.arange(M + 2) >= 2  # M kept instants: times 2 .. M+1
        dark_of = lambda tt: (np.asarray(tt) % 3) != 0  # noqa
        t.too_source = type("Src", (), {"sun_moon_cut": staticmethod(lambda tt: dark_of(tt))})()
        t.sun_moon_cut = True
        with np.errstate(all="ignore"):
            d1 = t.mcintegral(trig, cosc, pex, 2.0, 1.0, 1.0, lenDec=ld, method=method)
        t.sun_moon_cut = False
        dark = dark_of(np.arange(M + 5)[t.horizon_mask][t.volume_mask]) if method == "Optical" else np.ones(M, dtype=bool)
        ed = np.sum(area * 0.826 * keep[2] * (keep[0] >= 2.0) * dark) / len(t.times)
        if abs(d1[0] - ed) > 1e-9 * abs(ed):
            bad.append(f"target ({method}): with the dark-sky cut enabled the integral is {d1[0]}, the estimator with each event's own dark-sky verdict gives {ed}"
                       + ("" if method == "Optical" else " (the cut must not apply to the radio channel)"))
        with np.errstate(all="ignore"):
            a3 = t.mcintegral(trig, cosc, pex, 2.0, 4.0, 0.25, lenDec=ld, method=method)
        if abs(a3[0] - e) > 1e-9 * abs(e):
            bad.append(f"target ({method}): with spectrum factors (4, 1/4), whose product is 1, the integral is {a3[0]} instead of {e}")
    return bad


def _replay_wiring():
    """Real compute() runs (synchronous dask): header keywords vs the estimator recomputed from the stored columns."""
    import sys
    import warnings

    import dask
    import numpy as np

    import nuspacesim  # noqa
    from nuspacesim.config import NssConfig

    dask.config.set(scheduler="synchronous")
    comp = sys.modules["nuspacesim.compute"]
    bad = []
    for mode, area, thr in (("Target", 10.0, 3.0), ("Diffuse", 2.5, 10.0)):
        cfg = NssConfig()
        cfg.simulation.mode = mode
        cfg.simulation.thrown_events = 400
        cfg.detector.optical.telescope_effective_area = area
        cfg.detector.optical.photo_electron_threshold = thr
        cfg.detector.radio.snr_threshold = 1e-3
        cfg.detector.sun_moon.sun_moon_cuts = False
        np.random.seed(5)
        with warnings.catch_warnings(), np.errstate(all="ignore"):
            warnings.simplefilter("ignore")
            t = comp.compute(cfg)
        if len(t) == 0:
            continue
        N = cfg.simulation.thrown_events
        pex = np.asarray(t["tauExitProb"])
        if mode == "Target":
            L, l = np.asarray(t["path_len"]), np.asarray(t["lenDec"])
            for key, gkey, trigcol, coscol, th in (("OMCINT", "OMCINTGO", "numPEs", "costhetaChEff", thr), ("RMCINT", "RMCINTGO", None, None, 1e-3)):
                if coscol is None:
                    cc = np.full(len(t), np.cos(cfg.simulation.max_cherenkov_angle))
                else:
                    cc = np.asarray(t[coscol])
                area_ = np.where(L - l > 0, np.pi * (L - l) ** 2 * np.tan(np.arccos(cc)) ** 2, 0.0)
                geo = area_.sum() / N
                got = t.meta[gkey][0]
                if abs(got - geo) > 1e-6 * abs(geo):
                    bad.append(f"{mode}: header {gkey} = {got} but the stored columns give {geo}")
                if trigcol is not None:
                    e = np.sum(area_ * 0.826 * pex * (np.asarray(t[trigcol]) >= th)) / N
                    if abs(t.meta[key][0] - e) > 1e-6 * abs(e) + 1e-300:
                        bad.append(f"{mode}: header {key} = {t.meta[key][0]} but the stored columns give {e}")
    return bad


def _replay_wiring_spy():
    """Real compute() (Diffuse, radio only, synchronous dask) with the SNR stage replaced by a stub that returns signed
    values around +-threshold, and a spy on the geometry's mcintegral: the trigger array handed to the radio integral must
    be exactly what the SNR stage returned, the cosine cos(max_cherenkov_angle), the threshold the configured one."""
    import sys
    import warnings

    import dask
    import numpy as np

    import nuspacesim  # noqa
    from nuspacesim.config import NssConfig

    dask.config.set(scheduler="synchronous")
    comp = sys.modules["nuspacesim.compute"]
    bad = []
    cfg = NssConfig()
    cfg.simulation.mode = "Diffuse"
    cfg.simulation.thrown_events = 300
    cfg.detector.optical.enable = False
    cfg.detector.radio.enable = True
    cfg.detector.radio.snr_threshold = 5.0
    seen = {}
    real_snr = comp.calculate_snr

    def fake_snr(efields, *a, **k):
        n = len(np.asarray(efields))
        seen["snr"] = np.array([(-1.0) ** i * (2.0 + 1.5 * (i % 5)) for i in range(n)])  # -9.5 ... 8: some below -threshold
        return seen["snr"].copy()

    geom_cls = comp.RegionGeom
    real_mc = geom_cls.mcintegral

    def spy(self, triggers, costheta, tauexitprob, threshold, *a, **k):
        seen["args"] = (np.array(triggers, dtype=float), costheta, threshold)
        return real_mc(self, triggers, costheta, tauexitprob, threshold, *a, **k)

    comp.calculate_snr = fake_snr
    geom_cls.mcintegral = spy
    try:
        np.random.seed(11)
        with warnings.catch_warnings(), np.errstate(all="ignore"):
            warnings.simplefilter("ignore")
            comp.compute(cfg)
    finally:
        comp.calculate_snr = real_snr
        geom_cls.mcintegral = real_mc
    if "args" in seen and "snr" in seen:
        trig, cc, thr = seen["args"]
        if trig.shape != seen["snr"].shape or not np.array_equal(trig, seen["snr"]):
            k_ = int(np.argmax(trig != seen["snr"])) if trig.shape == seen["snr"].shape else 0
            bad.append(f"radio: the trigger values handed to mcintegral are not the signal-to-noise ratios the SNR stage returned (event {k_}: SNR {seen['snr'][k_]}, trigger {trig.reshape(-1)[k_] if trig.size else None}; threshold {thr})")
        if abs(float(cc) - np.cos(cfg.simulation.max_cherenkov_angle)) > 1e-15:
            bad.append(f"radio: cosine handed to mcintegral is {cc}, not cos(max_cherenkov_angle)")
        if thr != 5.0:
            bad.append(f"radio: threshold handed to mcintegral is {thr}, configured SNR threshold is 5.0")
    return bad


def replay(v):
    m = v.get("model") or {}
    job, ob = v.get("job", ""), v["obligation"]
    seq_words = ("not modified", "repeated call", "permutation invariant", "non-increasing", "geometry's stored")
    if any(w in ob for w in seq_words) or job.startswith("target("):
        bad = _replay_sequences()
        if bad:
            return {"reproduced": True, "key": "mcintegral: " + bad[0][:80], "detail": "; ".join(bad)}
        if any(w in ob for w in seq_words):
            return {"reproduced": False, "key": None, "detail": "real call sequences satisfy the predicate"}
    if job.startswith("wiring("):
        bad = _replay_wiring()
        if not bad and "radio" in ob:
            bad = _replay_wiring_spy()
        if bad:
            return {"reproduced": True, "key": "compute(): header keywords do not follow from the stored columns", "detail": "; ".join(bad)}
        return {"reproduced": False, "key": None, "detail": "real compute() runs: header keywords follow from the stored columns"}
    if job.startswith("diffuse"):
        N = int(job.split("N=")[1].split(",")[0])
        scalar = "scalar" in job
        out, ref, refgeo, refn = _real_diffuse(m, N, scalar)
        mc, geo, n, _ = out["a"]
        mc2 = out["b"][0]
        bad = None
        if "integral ==" in ob and not _close(mc, ref):
            bad = f"mcintegral returned {mc}, reference estimator gives {ref}"
        elif "geometry-only ==" in ob and not _close(geo, refgeo):
            bad = f"geometry-only returned {geo}, reference gives {refgeo}"
        elif "passing count" in ob and n != refn:
            bad = f"passing count {n}, reference {refn}"
        elif "<= 0.826" in ob and mc > 0.826 * geo * (1 + 1e-9) + 1e-12:
            bad = f"integral {mc} exceeds 0.826*geo {0.826*geo}"
        elif "integral >= 0" in ob and mc < -1e-12:
            bad = f"negative integral {mc}"
        if bad:
            return {"reproduced": True, "key": "diffuse mcintegral: " + ob.split("/", 1)[-1], "detail": bad + f" for inputs {m}"}
        return {"reproduced": False, "key": None, "detail": "real code satisfies the predicate at the model point"}
    return {"reproduced": False, "key": None, "detail": "structural claim (no numeric replay)"}


def validate(seed, tier):
    N = 3

    def sampler(rng):
        v = {"mcnorm": float(rng.uniform(1, 1e6)), "thr": float(rng.uniform(0, 5)), "thr2": float(rng.uniform(0, 5)), "specnorm": 2.0, "specw": 0.5}
        for i in range(N):
            v[f"cTrV{i}"] = float(rng.uniform(0.9, 1)); v[f"cTrN{i}"] = float(rng.uniform(-0.3, 1)); v[f"cNV{i}"] = float(rng.uniform(0.05, 1))
            v[f"beta{i}"] = float(rng.uniform(0, 60)); v[f"trig{i}"] = float(rng.uniform(0, 5)); v[f"cosCh{i}"] = float(rng.uniform(0.85, 1)); v[f"pexit{i}"] = float(rng.uniform(1e-6, 1))
        return v

    def real(v):
        out, ref, refgeo, refn = _real_diffuse(v, N, False)
        mc, geo, n, _ = out["a"]
        return {"mc": float(mc), "geo": float(geo), "npass": float(n)}

    return harness.validate(diffuse_run(N), sampler, real, 60, seed)


MANIFEST_ENTRY = {
    "level_text": "Bounded symbolic execution of the real RegionGeom.mcintegral and RegionGeomToO.mcintegral with every per-event column, threshold, normalisation and mask symbolic (all validity / horizon / volume patterns of N<=3 (quick) or N<=4 (thorough) thrown events); the returned integral, geometry-only integral and passing count are proved equal (nlsat, exact reals) to an independent reference estimator written from the statement, plus permutation invariance, monotonicity in the threshold, the 0.826 bound, /N_thrown, dark-sky cut iff Optical; the wiring of compute() is checked on the real compute() body with recording stage stubs.",
    "level_note": "The harness objects carry a configuration whose thrown_events differs from the batch size (the estimator must divide by the number actually thrown); the sequence replay also uses spectrum factors (4, 1/4). REAL arithmetic; bounded N; sun/moon ephemerides stubbed by free Booleans per event time; uncertainty return value not claimed; compute() wiring uses stage stubs (identity of the objects passed), not the numeric stages.",
    "technique": "symbolic execution of the real NumPy source (DFS over mask patterns) + z3 qfnra-nlsat equivalence against a reference estimator",
}
