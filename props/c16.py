"""C16 -- a results file is self-describing and loss-free (partial: the FITS byte layer,
i.e. astropy.io.fits column/header I/O, is not encoded)."""
from __future__ import annotations

from collections.abc import MutableMapping
from fractions import Fraction as Fr

import z3

from symnp import core, harness, load, units
from symnp.core import SV

ID = "C16"
META = {
    "bounds": {
        "quick": "every float leaf of the configuration symbolic (detector position, sun/moon cuts, optical, radio, angles, ionosphere, tau shower, spectrum parameters, cloud altitude, target), both spectrum types x three cloud models; header = what the real results_table.init + flatten_dict produce",
        "thorough": "same (the space is structural); second solver on the numeric claims",
    },
    "outside_bounds": ["bit-for-bit FITS column and header I/O (astropy.io.fits: C/NumPy I/O) -- that clause of C16 is not claimed", "FITS card length limits / CONTINUE cards", "non-ASCII strings"],
    "stubs": ["astropy.units.Quantity -> symbolic quantity (value term, astropy unit); conversion factors and equivalence from the real astropy; str()/parse exact inverse pair",
              "astropy.io.fits.open -> header mapping built from the meta of the table returned by the real results_table.init (case-insensitive keys, HIERARCH prefix optional)",
              "AstropyTable -> recording table (meta only)", "NssConfig(**kwargs) inside config_from_fits -> recorder; the model's own before-validators are then applied to each reconstructed leaf"],
    "assumptions": ["REAL mode; rad<->deg conversion factors are astropy's doubles (their product differs from 1 by < 2.3e-16): reconstructed angles are compared within 4e-16 relative", "printing a double and parsing the text back is exact (Python float repr round-trips)"],
}
LEDGER = {"quick": 262, "thorough": 200}

FLOAT_LEAVES = {
    ("detector", "initial_position", "altitude"), ("detector", "initial_position", "latitude"), ("detector", "initial_position", "longitude"),
    ("detector", "sun_moon", "sun_alt_cut"), ("detector", "sun_moon", "moon_alt_cut"), ("detector", "sun_moon", "moon_min_phase_angle_cut"),
    ("detector", "optical", "telescope_effective_area"), ("detector", "optical", "quantum_efficiency"), ("detector", "optical", "photo_electron_threshold"),
    ("detector", "radio", "low_frequency"), ("detector", "radio", "high_frequency"), ("detector", "radio", "snr_threshold"), ("detector", "radio", "gain"),
    ("simulation", "max_cherenkov_angle"), ("simulation", "max_azimuth_angle"), ("simulation", "angle_from_limb"),
    ("simulation", "ionosphere", "total_electron_content"), ("simulation", "ionosphere", "total_electron_error"),
    ("simulation", "tau_shower", "etau_frac"),
    ("simulation", "target", "source_RA"), ("simulation", "target", "source_DEC"), ("simulation", "target", "source_obst"),
}


def _name(path):
    return "cfg_" + "_".join(path)


def build(spectrum, cloud):
    """(namespaces, symbolic config, {path: original value})"""
    cns = load.load("nuspacesim.config", {"Quantity": units.Quantity}, np=None)
    cns["int"] = core.sym_int  # run-time int(...) calls in the module keep symbolic values symbolic (installed after the models are built)
    NssConfig, Sim = cns["NssConfig"], cns["Simulation"]
    cfg = NssConfig().model_copy(deep=True)
    cfg.title = "run 7"
    cfg.detector.name = "Balloon-X"
    cfg.detector.radio.nantennas = 7
    cfg.simulation.thrown_events = 12345
    cfg.simulation.mode = "Target"
    cfg.simulation.tau_shower.table_version = "2"
    if spectrum == "mono":
        cfg.simulation.spectrum = Sim.MonoSpectrum()
        extra = {("simulation", "spectrum", "log_nu_energy")}
    else:
        cfg.simulation.spectrum = Sim.PowerSpectrum()
        extra = {("simulation", "spectrum", "index"), ("simulation", "spectrum", "lower_bound"), ("simulation", "spectrum", "upper_bound")}
    if cloud == "no_cloud":
        cfg.simulation.cloud_model = Sim.NoCloud()
    elif cloud == "monocloud":
        cfg.simulation.cloud_model = Sim.MonoCloud()
        extra = extra | {("simulation", "cloud_model", "altitude")}
    elif cloud == "monocloud_default":
        cfg.simulation.cloud_model = Sim.MonoCloud()  # altitude left at its default, -inf: a value FITS cannot represent
    else:
        cfg.simulation.cloud_model = Sim.PressureMapCloud(month=7)
    orig = {}
    for path in sorted(FLOAT_LEAVES | extra):
        o = cfg
        for k in path[:-1]:
            o = getattr(o, k)
        sv = SV(t=z3.Real(_name(path)))
        object.__setattr__(o, path[-1], sv) if False else setattr(o, path[-1], sv)
        orig[path] = sv
    return cns, cfg, orig


def _leaves(d, prefix=()):
    for k, v in d.items():
        if isinstance(v, (dict, MutableMapping)):
            yield from _leaves(v, prefix + (k,))
        else:
            yield prefix + (k,), v


class Header:
    """FITS header semantics needed here: case-insensitive keys, optional HIERARCH prefix."""

    def __init__(self, meta):
        self.d = {}
        for k, v in meta.items():
            kk = k[len("HIERARCH "):] if k.upper().startswith("HIERARCH ") else k
            if isinstance(v, tuple):
                v = v[0]
            if isinstance(v, float) and (v != v or v in (float("inf"), float("-inf"))):
                continue  # FITS has no representation of NaN / infinity: the card does not survive the file (validated on real astropy in replay)
            self.d[kk.upper()] = v

    def _k(self, k):
        k = k[len("HIERARCH "):] if k.upper().startswith("HIERARCH ") else k
        return k.upper()

    def __contains__(self, k):
        return self._k(k) in self.d

    def __getitem__(self, k):
        if self._k(k) not in self.d:
            raise KeyError(f"Keyword {k!r} not found.")
        return self.d[self._k(k)]


def roundtrip_run(spectrum, cloud):
    def run(C):
        import warnings

        cns, cfg, orig = build(spectrum, cloud)

        class Table:
            def __init__(self, meta=None, **k):
                self.meta = dict(meta or {})

        rns = load.load("nuspacesim.results_table", {"AstropyTable": Table, "NssConfig": cns["NssConfig"]}, np=None)
        with warnings.catch_warnings():
            warnings.simplefilter("ignore")
            dump = cfg.model_dump()
            table = rns["init"](cfg)
        leaves = dict(_leaves(dump))
        meta = table.meta
        claims = {}
        cfgkeys = [k for k in meta if k.startswith("HIERARCH Config")]
        claims["header has exactly one HIERARCH Config key per leaf of the configuration dump"] = z3.BoolVal(
            len(cfgkeys) == len(leaves) and all(("HIERARCH Config " + " ".join(p)) in meta for p in leaves))
        claims["no two configuration leaves collide on a header key (case-insensitively)"] = z3.BoolVal(len({k.upper() for k in cfgkeys}) == len(leaves))
        _miss = object()
        claims["every header value is the dumped leaf value"] = z3.BoolVal(all(meta.get("HIERARCH Config " + " ".join(p), _miss) is v or meta.get("HIERARCH Config " + " ".join(p), _miss) == v for p, v in leaves.items()))
        claims["start time recorded"] = z3.BoolVal("simTime" in meta)
        # ---- read it back through the real config_from_fits ------------------------------
        hdr = Header(meta)
        rec = {}

        class Fits:
            @staticmethod
            def open(filename, mode="readonly", **k):
                rec["opened"] = (filename, mode)
                return [None, type("HDU", (), {"header": hdr})()]

        def Recorder(**kw):
            rec["kwargs"] = kw
            return kw

        cns["fits"] = Fits
        cns["NssConfig"] = Recorder
        try:
            out = cns["config_from_fits"]("results.fits")
            err = None
        except Exception as e:  # noqa
            out, err = None, e
        claims[f"stored results can be reloaded: config_from_fits succeeds ({spectrum} spectrum, {cloud})"] = z3.BoolVal(err is None)
        lem = []
        if out is not None:
            for path, tok in _leaves(out):
                # validator of the original model for this field (before-validators are plain functions)
                o = cfg
                for k in path[:-1]:
                    o = getattr(o, k)
                val = tok
                for dec in type(o).__pydantic_decorators__.field_validators.values():
                    if path[-1] in dec.info.fields:
                        val = getattr(type(o), dec.cls_var_name)(tok)
                want = getattr(o, path[-1])
                nm = f"reconstructed {'.'.join(path)} == original"
                if isinstance(want, SV) and want.t is not None:
                    if isinstance(val, SV) or isinstance(val, (int, float)):
                        v, w = SV.of(val).term(), want.t
                        tol = core.rv(Fr(4, 10**16))
                        claims[nm] = z3.And(v - w <= tol * z3.If(w >= 0, w, -w), w - v <= tol * z3.If(w >= 0, w, -w))
                    else:
                        claims[nm] = z3.BoolVal(False)
                else:
                    claims[nm] = z3.BoolVal(val == want)
        inputs = {_name(p): z3.Real(_name(p)) for p in orig}
        return harness.Out(claims=claims, inputs=inputs, info={"n_leaves": len(leaves)})

    return run


def flatten_run():
    """flatten_dict on nested mappings with symbolic leaves: keys are the joined paths, leaves untouched."""

    def run(C):
        from nuspacesim.utils import misc  # pure Python; executed as is (traced)

        a, b, c = (SV(t=z3.Real(n)) for n in "abc")
        d = {"x": {"y": {"z": a}, "w": b}, "v": c, "e": {}}
        f = misc.flatten_dict(d, "P", sep=" ")
        claims = {
            "keys are the joined paths under the parent key": z3.BoolVal(set(f) == {"P x y z", "P x w", "P v"}),
            "leaves are passed through unchanged": z3.BoolVal(f["P x y z"] is a and f["P x w"] is b and f["P v"] is c),
            "default separator is '.' and no parent key means no prefix": z3.BoolVal(misc.flatten_dict({"a": {"b": 1}}) == {"a.b": 1}),
        }
        return harness.Out(claims=claims)

    return run


def job_roundtrip(spectrum, cloud, tier):
    return harness.run_job(f"results header round trip ({spectrum}, {cloud})", roundtrip_run(spectrum, cloud), timeout_ms=60000, second=(tier == "thorough"), max_paths=24)


def job_flatten(tier):
    return harness.run_job("flatten_dict", flatten_run(), timeout_ms=10000)


def jobs(tier, seed):
    out = [("flat", "job_flatten", {"tier": tier})]
    for s in ("mono", "power"):
        for c in ("no_cloud", "monocloud", "monocloud_default", "pressure_map"):
            out.append((f"rt{s}{c}", "job_roundtrip", {"spectrum": s, "cloud": c, "tier": tier}))
    return out


def replay(v):
    """End to end on the real code: real table, real FITS file, real config_from_fits."""
    import math

    job, ob = v.get("job", ""), v["obligation"]
    if not job.startswith("results header round trip"):
        return {"reproduced": False, "key": None, "detail": "structural claim"}
    m = {k: x for k, x in (v.get("model") or {}).items() if x is not None}
    extra = {("simulation", "spectrum", "log_nu_energy"), ("simulation", "spectrum", "index"), ("simulation", "spectrum", "lower_bound"), ("simulation", "spectrum", "upper_bound"),
             ("simulation", "cloud_model", "altitude")}
    paths = sorted(FLOAT_LEAVES | extra)
    if "reconstructed" in ob:
        # the obligation is about ONE leaf: the model's value for it, then (int()/trunc is abstracted without
        # integrality in the encoding) the half-integers next to it
        leaf = tuple(ob.split("reconstructed ")[1].split(" ==")[0].split("."))
        x = m.get(_name(leaf))
        tries = ([float(x), math.floor(abs(float(x))) + 0.5] if x is not None else []) + [7.5, 0.5]
        for val in tries:
            r = _real_roundtrip(job, ob, {leaf: val}, leaf)
            if r is not None:
                return r
        return {"reproduced": False, "key": None, "detail": f"real round trip agrees for {'.'.join(leaf)} in {tries}"}
    r = _real_roundtrip(job, ob, {p: float(m[_name(p)]) for p in paths if _name(p) in m}, None)
    return r or {"reproduced": False, "key": None, "detail": "real round trip agrees"}


def _real_roundtrip(job, ob, values, leaf):
    """-> reproduction record or None.  `values`: {path: value} applied to a valid base configuration; an
    assignment that makes the configuration invalid (the model constrains only what the path needs) is skipped."""
    import os
    import tempfile
    import warnings

    import numpy as np
    from astropy.io import fits as _fits

    from nuspacesim import results_table
    from nuspacesim.config import NssConfig, Simulation, config_from_fits

    spectrum = "power" if "(power" in job else "mono"
    cfg = NssConfig()
    cfg.detector.initial_position.latitude = 0.3
    cfg.detector.initial_position.longitude = 1.1
    cfg.detector.initial_position.altitude = 33.0
    if spectrum == "power":
        cfg.simulation.spectrum = Simulation.PowerSpectrum(index=2.2, lower_bound=7.0, upper_bound=10.0)
    else:
        cfg.simulation.spectrum = Simulation.MonoSpectrum(log_nu_energy=9.5)
    cloud = job.split(", ")[1].rstrip(")") if ", " in job else "no_cloud"
    if cloud == "monocloud":
        cfg.simulation.cloud_model = Simulation.MonoCloud(altitude=2.5)
    elif cloud == "monocloud_default":
        cfg.simulation.cloud_model = Simulation.MonoCloud()
    elif cloud == "pressure_map":
        cfg.simulation.cloud_model = Simulation.PressureMapCloud(month=7)
    applied = {}
    with warnings.catch_warnings():
        warnings.simplefilter("ignore")
        for path, x in values.items():
            o = cfg
            try:
                for k in path[:-1]:
                    o = getattr(o, k)
                if not hasattr(o, path[-1]):
                    continue
                old = getattr(o, path[-1])
                setattr(o, path[-1], float(x))
                try:
                    NssConfig.model_validate(cfg.model_dump())
                    applied[".".join(path)] = float(x)
                except Exception:  # noqa
                    setattr(o, path[-1], old)
            except Exception:  # noqa
                pass
        if leaf is not None and ".".join(leaf) not in applied:
            return None
        with tempfile.TemporaryDirectory() as d:
            t = results_table.init(cfg)
            t.add_columns([np.arange(3.0)], names=["beta_rad"])
            p = os.path.join(d, "r.fits")
            t.write(p, format="fits", overwrite=True)
            if leaf is None:
                with _fits.open(p) as hd:
                    hdr = hd[1].header
                    for path, val in _leaves(cfg.model_dump()):
                        if val is None or (isinstance(val, float) and (val != val or val in (float("inf"), float("-inf")))):
                            continue  # the statement is about values FITS can represent
                        key = "Config " + " ".join(path)
                        if key not in hdr:
                            return {"reproduced": True, "key": "results header lacks a configuration entry",
                                    "detail": f"configuration leaf {'.'.join(path)} = {val!r} has no header card '{key}' in the written file (valid configuration; non-default values: {applied})"}
                        got = hdr[key]
                        if not (got == val or (isinstance(val, float) and abs(got - val) <= 1e-12 * abs(val))):
                            return {"reproduced": True, "key": "results header value differs from the configuration", "detail": f"{key}: header {got!r}, configuration {val!r}"}
            try:
                back = config_from_fits(p)
            except Exception as ex:
                return {"reproduced": True, "key": f"config_from_fits raises {type(ex).__name__} for a {spectrum} spectrum run",
                        "detail": f"config_from_fits on a results file of a valid {spectrum}-spectrum configuration ({applied}) raised {type(ex).__name__}: {ex}"}
    if leaf is not None:
        a, b = cfg, back
        for k in leaf:
            a, b = getattr(a, k), getattr(b, k)
        same = (abs(a - b) <= 1e-12 * max(1.0, abs(a))) if isinstance(a, float) else (a == b)
        if not same:
            return {"reproduced": True, "key": f"config_from_fits: {'.'.join(leaf)} differs from the original", "detail": f"original {'.'.join(leaf)} = {a!r}, reconstructed {b!r}"}
    return None


MANIFEST_ENTRY = {
    "level_text": "Partial claim. The real results_table.init, flatten_dict/_flat and config_from_fits are executed with every float leaf of the configuration symbolic (both spectrum types x four cloud configurations: none, uniform with a symbolic altitude, uniform with its default altitude -inf which FITS cannot represent, pressure map): the header has exactly one HIERARCH Config key per leaf of the dump with no collisions, and every field config_from_fits reconstructs -- after the model's own before-validators -- equals the original (z3: identical symbol, or within 4e-16 relative for the rad/deg text conversion), and the reload succeeds for every spectrum type. Counterexamples are replayed end to end with a real FITS file.",
    "level_note": "int() inside the reader is kept symbolic (Ackermannised truncation; integrality not encoded: sound over-approximation, counterexamples are re-found on the real code next to the model value). A path that drops a leaf from the header is explored up to 24 paths per job. NOT covered: bit-for-bit FITS column/header I/O (astropy.io.fits) -- not claimed. Quantity, fits.open, AstropyTable and the NssConfig constructor are stubs as listed in the evidence; unit algebra itself is astropy's (queried at run time).",
    "technique": "symbolic execution of the real Python source with symbolic configuration leaves + z3 (term identity / linear real arithmetic)",
}
