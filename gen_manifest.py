#!/usr/bin/env python3
"""Regenerates MANIFEST.json from props/*.py (MANIFEST_ENTRY dicts) + the not-applicable table."""
import importlib, json, os, sys
sys.path.insert(0, os.path.dirname(os.path.abspath(__file__)))
NA = {
 "C06": "numerical agreement (10%/0.5%/1%) of a 600-line float32 kernel with libm exp/pow/arccos and an input-dependent C++ stepping loop: floating point + transcendentals + FFI, no solver back end here encodes it (QF_FP did not finish two multiplications); see DESIGN.md section 4",
 "C10": "quantifies over dask schedulers / worker counts / interleavings; the behaviour lives in dask's threaded and multi-process schedulers which cannot be executed symbolically; a hand model of dask would not be the real code; see DESIGN.md section 4",
}
PENDING = "check not built yet (framework under construction); see DESIGN.md section 3 for the plan"
ids = [json.loads(l)["id"] for l in open("properties.jsonl")]
checks, na = [], []
for pid in ids:
    if pid in NA:
        na.append({"property_id": pid, "reason": NA[pid]}); continue
    try:
        m = importlib.import_module(f"props.{pid.lower()}")
        e = m.MANIFEST_ENTRY
    except Exception as ex:
        if os.environ.get("GEN_MANIFEST_LENIENT") != "1":
            raise SystemExit(f"cannot import props.{pid.lower()}: {ex} -- run with .venv/bin/python and PYTHONPATH=/verif:/repo/src")
        na.append({"property_id": pid, "reason": PENDING}); continue
    checks.append({
        "property_id": pid,
        "quick_cmd": f"./check {pid} --tier quick",
        "thorough_cmd": f"./check {pid} --tier thorough",
        "evidence_file": f"/verif/evidence/{pid}.json",
        "replay_cmd_template": f"./check {pid} --replay {{path}}",
        "engine": "symnp",
        "level_claimed": {"category": "model_checking", "text": e["level_text"], "design_ref": e.get("design_ref", "DESIGN.md section 3")},
        "level_note": e["level_note"],
        "technique": e["technique"],
    })
man = {
 "version": 1,
 "setup_cmd": "./setup.sh",
 "hooks": {"guard": "NUSPACESIM_VERIF", "enable": "none needed: the checks exec /repo's source with NumPy rebound to the symbolic shim; no hook exists in /repo",
           "baseline_off_cmd": "cd /repo && /venv/bin/python -m pytest -ra -q -p no:cacheprovider --timeout=900 --continue-on-collection-errors",
           "source_commits": [], "add_only": True},
 "engines": [{"name": "symnp", "path": "/verif/symnp", "serves_properties": [c["property_id"] for c in checks],
              "kind_free_text": "home-built symbolic executor: runs /repo's real Python source under a symbolic NumPy shim (z3 terms, DFS forking on data-dependent shapes/branches), discharges NRA obligations with z3 qfnra-nlsat; Ackermannised exp/log/pow, algebraised trigonometry; concolic translator validation against the unpatched module; /usr/bin/z3 4.8.12 as second opinion in the thorough tier"}],
 "checks": checks,
 "not_applicable": na,
 "notes": "exit 0 = held within stated bounds; exit 1 + VIOLATION = counterexample reproduced on the real code; exit 2 = harness error / undecided below ledger (nothing claimed). Known findings: /verif/known_findings.json.",
}
json.dump(man, open("MANIFEST.json", "w"), indent=1)
print("checks:", [c["property_id"] for c in checks], "n/a:", [x["property_id"] for x in na])
