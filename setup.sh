#!/bin/sh
# Build the overlay venv used by every check (offline; wheels from /opt/veriftools/wheels).
set -e
cd "$(dirname "$0")"
if [ -x .venv/bin/python ] && .venv/bin/python -c "import z3, numpy, scipy, astropy, mpmath, sympy" 2>/dev/null; then
  exit 0
fi
rm -rf .venv
/venv/bin/python -m venv .venv
SP=$(.venv/bin/python -c "import sysconfig; print(sysconfig.get_paths()['purelib'])")
echo "import site; site.addsitedir('/venv/lib/python3.12/site-packages')" > "$SP/zz_overlay.pth"
PIP_NO_INDEX=1 .venv/bin/pip install -q --no-index --find-links /opt/veriftools/wheels z3-solver mpmath sympy crosshair-tool >/dev/null 2>&1 || \
PIP_NO_INDEX=1 .venv/bin/pip install -q --no-index --find-links /opt/veriftools/wheels z3-solver mpmath sympy
.venv/bin/python -c "import z3, numpy, scipy, astropy, mpmath, sympy; print('verif venv ok, z3', z3.get_version_string())"
